#!/bin/bash
# tools/try_seed.sh <seed-dir-or-patch> <PROP> [tier] : apply the patch to /repo, run the check, undo.
P=$(realpath $1); [ -d "$P" ] && P=$P/patch.diff
PROP=$2; TIER=${3:-quick}
trap 'git -C /repo checkout -- .' EXIT INT TERM
git -C /repo apply "$P" || { echo "APPLY FAILED"; exit 3; }
cd /verif && timeout 1500 ./check $PROP --tier $TIER > /tmp/try_$PROP.log 2>&1; rc=$?
git -C /repo checkout -- . 
echo "seed=$1 prop=$PROP rc=$rc"; grep -E "^VIOLATION|^KNOWN-FINDING|^HARNESS-ERROR|^== .*obligations=" /tmp/try_$PROP.log | cut -c1-260 | head -12

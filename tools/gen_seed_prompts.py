"""Writes /tmp/wt4/<ID>.prompt.txt for every property: the only thing a seeding sub-agent is given (property text, its own\nscratch worktree, the one-line descriptions of changes already used). Nothing from /verif except those one-liners."""
import json, os, glob

base='''You are helping to evaluate a verification framework by producing realistic *seeded defects* for a Python project.

Your scratch git worktree of the project (skepticoin, a small pure-Python Bitcoin-style cryptocurrency node) is at /tmp/wt4/__ID__ . Work ONLY inside that directory. Never read or write /repo or /verif (they are off limits), and do not look at other directories under /tmp/wt4.

Python interpreter with all project dependencies: /venv/bin/python . Run the existing test suite from the worktree root with:
    cd /tmp/wt4/__ID__ && /venv/bin/python -m pytest -q -p no:cacheprovider --timeout=900
(64 tests pass, 1 skipped, on the unmodified tree; it takes ~10 s). NOTE: tests/networking/test_integration.py binds fixed TCP ports 12412/12413 and other processes on this machine may run the same suite at the same time; if ONLY those integration tests fail (Address already in use / timing), simply re-run the suite until you get a clean run. There is no network. Importing some skepticoin modules creates a `chain.db` file in the current working directory; that is harmless, but run demos from a temp dir or the worktree root, and set PYTHONPATH=/tmp/wt4/__ID__ so that YOUR worktree's code is imported (check `skepticoin.__file__`). The machine is busy: keep CPU use modest.

Here is a semantic property the project is supposed to satisfy:

--------------------------------------------------------------------------
__PROPERTY__
--------------------------------------------------------------------------

Task: produce TWO different, independent source changes ("mutants") to the project's code under /tmp/wt4/__ID__/skepticoin/ , each of which
  (1) BREAKS the property above (some input / history / schedule / crash point exists for which the statement becomes false),
  (2) still compiles/imports, and the existing test suite still passes completely, unedited (64 passed),
  (3) is realistic: the kind of subtle regression a developer could plausibly introduce while refactoring, optimising or "hardening" the code, small (ideally 1-12 changed lines),
  (4) needs something SPECIFIC to manifest - a particular interleaving, a crash or fault at a particular point, a multi-step sequence of operations, an unusual/boundary input, or two cooperating sites that each look fine alone. Do NOT produce changes that ordinary use of the software would expose immediately.

This is a FOURTH round. The following changes have ALREADY been used for this property in earlier rounds; do not repeat them or close variants of them (same code site and same mechanism):
__USED__
Find genuinely different ones: other code sites that the property depends on (helpers, callers, constructors, data classes, constants, the other module that participates), other clauses of the property statement than the ones attacked above, other mechanisms (boundary arithmetic, evaluation order, aliasing / missing copies, state kept between calls, default arguments, error paths and exception types, integer/bytes/type confusions, behaviour that differs only on forks / reorganisations / repeated calls / particular heights, sizes or counts). The two mutants must break the property through different mechanisms and at different code sites.

For each mutant k in {1,2} deliver, inside /tmp/wt4/__ID__/mutants/k/ :
  - patch.diff : output of `git diff` (relative to the worktree's HEAD, touching only files under skepticoin/), so that `git apply patch.diff` on a clean checkout reproduces the change;
  - demo.py : a small self-contained program that demonstrates the violation: it must exit non-zero WITH the patch applied and exit 0 WITHOUT it. It should exercise the project's real public functions/classes (not a re-implementation). Keep it fast (< 60 s). Proof-of-work: mining real blocks with scrypt is slow (0.1 s per hash); prefer the project's own helper functions, the recorded blocks in tests/testdata/chain, monkeypatching the hash functions / checkpoint constants inside the demo, or calling lower-level functions directly.
  - notes.md : 5-15 lines; the FIRST line a one-sentence description of the change; then why it breaks the property, what specific circumstance is needed for it to manifest, and why the existing tests do not notice.

Procedure for each mutant: make the change in the worktree; run the full test suite (must be 64 passed); run demo.py (must fail); save `git diff -- skepticoin > mutants/k/patch.diff`; then `git checkout -- skepticoin` to restore the clean tree; run demo.py again (must pass). At the very end the worktree's tracked files must be unmodified (`git status --short` shows only the untracked mutants/ directory and maybe chain.db).

Do not weaken or delete existing tests. Do not add new dependencies. In your final answer give, for each mutant: a one-line description, the files/lines touched, and the commands you ran with their observed outcomes.
'''
def first_line(d):
    p=d+'/notes.md'
    if os.path.exists(p):
        for line in open(p):
            line=line.strip().lstrip('#').strip()
            if line: return line[:200]
    return json.load(open(d+'/meta.json')).get('source','')[:200]
for l in open('/verif/properties.jsonl'):
    d=json.loads(l); pid=d['id']
    used=[first_line(s) for s in sorted(glob.glob(f'/verif/seeded/{pid}-*'))]
    p=f"{d['title']}\n\n{d['statement']}\n\nQuantification: {d['quantifier']['text']}"
    open(f"/tmp/wt4/{pid}.prompt.txt","w").write(base.replace('__ID__',pid).replace('__PROPERTY__',p).replace('__USED__','\n'.join('  - '+u for u in used)))

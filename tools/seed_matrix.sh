#!/bin/bash
# tools/seed_matrix.sh [seed-id ...] : run each seeded change's property check (quick tier) against a scratch worktree
# with the change applied (never /repo itself) and write /verif/seeded/RESULTS.tsv  (seed, property, rc, summary line).
HERE=$(dirname "$(dirname "$(realpath "$0")")")
cd "$HERE"
WT=$(mktemp -d /tmp/seedmx-XXXX); rmdir $WT
git -C /repo worktree add -q --detach $WT HEAD || exit 3
trap 'git -C /repo worktree remove --force $WT; rm -rf $WT' EXIT INT TERM
SEEDS_DIR=${SEEDS_DIR:-$HERE/seeded}
OUT=${MATRIX_OUT:-$HERE/seeded/RESULTS.tsv}
[ $# -eq 0 ] && : > $OUT
SEEDS=${@:-$(ls $SEEDS_DIR | grep -v RESULTS)}
for s in $SEEDS; do
  prop=$(python3 -c "import json;print(json.load(open('$SEEDS_DIR/$s/meta.json'))['property'])")
  git -C $WT checkout -q -- . ; git -C $WT apply $SEEDS_DIR/$s/patch.diff || { echo -e "$s\t$prop\tAPPLY-FAILED" >> $OUT; continue; }
  VERIF_REPO=$WT VERIF_JOBS=${VERIF_JOBS:-16} timeout 2400 ./check $prop --tier quick > /tmp/mx_$$_$s.log 2>&1; rc=$?
  line=$(grep -E "^== $prop:" /tmp/mx_$$_$s.log | tail -1)
  echo -e "$s\t$prop\trc=$rc\t$line" >> $OUT
  echo "$s $prop rc=$rc"
done
git -C $WT checkout -q -- .

#!/usr/bin/env python3
"""Render seeded/RESULTS*.tsv as a markdown table: seed, property, first line of its notes, result of the first run against the
checks as they stood when the round was produced ("as is"), result of the latest run after strengthening."""
import glob
import json
import os
import re

first, last = {}, {}
for f in sorted(glob.glob('/verif/seeded/RESULTS*.tsv'), key=lambda f: int(re.search(r'round(\d+)', f).group(1))):
    for l in open(f):
        p = l.rstrip('\n').split('\t')
        if len(p) >= 3:
            first.setdefault(p[0], p)
            last[p[0]] = p


def res(p):
    rc = p[2]
    summary = p[3] if len(p) > 3 else ''
    m = re.search(r'violations=(\d+).*harness_errors=(\d+)', summary)
    return {'rc=1': 'caught (%s obl.)' % (m.group(1) if m else '?'), 'rc=0': 'MISSED', 'rc=2': 'not caught (harness error)',
            'rc=124': 'timeout'}.get(rc, rc)


print("| seed | property | what it is (first line of its notes) | first run | latest run |")
print("|---|---|---|---|---|")
for s in sorted(last):
    d = '/verif/seeded/' + s
    note = ''
    if os.path.exists(d + '/notes.md'):
        for line in open(d + '/notes.md'):
            line = line.strip().lstrip('#').strip()
            if line:
                note = line[:110]
                break
    elif os.path.exists(d + '/meta.json'):
        note = json.load(open(d + '/meta.json')).get('source', '')[:110]
    a, b = res(first[s]), res(last[s])
    print("| %s | %s | %s | %s | %s |" % (s, last[s][1], note.replace('|', '/'), a, b if last[s] is not first[s] else "="))

#!/usr/bin/env python3
"""Render seeded/RESULTS*.tsv as a markdown table (seed, property, needs, result)."""
import json, os, sys, glob
rows = {}
for f in sorted(glob.glob('/verif/seeded/RESULTS*.tsv')):
    for l in open(f):
        p = l.rstrip('\n').split('\t')
        if len(p) >= 3:
            rows[p[0]] = p
print("| seed | property | what it is (first line of its notes) | own check, quick tier |")
print("|---|---|---|---|")
for s in sorted(rows):
    p = rows[s]
    d = '/verif/seeded/' + s
    note = ''
    if os.path.exists(d + '/notes.md'):
        for line in open(d + '/notes.md'):
            line = line.strip().lstrip('#').strip()
            if line:
                note = line[:110]
                break
    else:
        note = json.load(open(d + '/meta.json')).get('source', '')[:110]
    rc = p[2]
    summary = p[3] if len(p) > 3 else ''
    import re
    m = re.search(r'violations=(\d+).*harness_errors=(\d+)', summary)
    res = {'rc=1': 'caught (VIOLATION, %s obligations)' % (m.group(1) if m else '?'), 'rc=0': 'MISSED', 'rc=2': 'not caught (harness error, exit 2)'}.get(rc, rc)
    print("| %s | %s | %s | %s |" % (s, p[1], note.replace('|', '/'), res))

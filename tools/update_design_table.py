#!/usr/bin/env python3
"""Replace the seed table at the end of DESIGN.md (everything after the 'Full table' line) with the current matrix_table output."""
import subprocess
p = '/verif/DESIGN.md'
h = open(p).read()
marker = "Full table (own property's check, quick tier, scratch worktree"
i = h.index(marker)
head = h[:i]
table = subprocess.run(['python3', '/verif/tools/matrix_table.py'], capture_output=True, text=True).stdout
open(p, 'w').write(head + marker + "; 'first run' = against the checks as they stood when the change was produced,\n"
                   "'latest run' = after strengthening, '=' where there was only one run):\n\n" + table)
print("rows:", table.count("\n") - 2)

#!/usr/bin/env python3
"""Regenerate /verif/MANIFEST.json from the table below (kept valid against the schema at all times)."""
import json
import os
import sys

HERE = os.path.dirname(os.path.dirname(os.path.abspath(__file__)))

# id -> (technique, level text, level note, design ref)
CLAIMED = {
    "C16": ("CrossHair symbolic execution per subsidy era (height unbounded inside the era) + z3 integer arithmetic for the total",
            "Solver verdict over every height inside each of the 65 eras (no height bound), every amount for the validator's limit; "
            "the supply total by exact integer arithmetic; the schedule and the limit as ENFORCED by CoinState.add_block at era boundaries and on "
            "output totals (harness shared with C02). Stronger than the exhaustive sweep the property asks for.",
            "Trusts z3/CrossHair's integer model; heights >= 0.", "DESIGN.md 4/C16"),
    "C17": ("CrossHair symbolic execution of merkletree.py with an injective (tagged-identity) hash constructor",
            "Solver verdict over all leaf values for every pair of list lengths <= 5 (quick) / <= 7 (thorough): equal roots imply equal "
            "lists; root equals an independent reference construction; every proof (symbolic position, n <= 8 quick / 16 thorough) reproduces "
            "the root and contains the leaf; the caller's list is left unchanged.",
            "sha256d idealised as an injective constructor (collision-freeness assumed); leaves are atoms. Lists longer than the bound are outside.",
            "DESIGN.md 4/C17"),
    "C07": ("CrossHair symbolic execution of the real encoders/decoders on a pure-Python stream (symbolic fields; symbolic byte strings; templates with symbolic positions)",
            "Solver verdict per serializable type: encode->decode fieldwise for symbolic field values, decode->encode == consumed bytes for "
            "symbolic byte strings (free strings <= 206 bytes for fixed layouts, <= 44 bytes for list-bearing ones; concrete templates with "
            "<= 2 symbolic positions beyond that), list-carrying messages at list sizes around 0, 128 and the octet boundaries, id == H(canonical "
            "bytes) also after in-place mutation and for objects read from the store; VLQ primitive for all values < 2^27/2^34 and all strings <= 6 bytes.",
            "PyBytesIO stands in for io.BytesIO; sha256d is a tagged identity in symbolic runs (real sha256d in replay); 64-bit fields are a "
            "16-bit symbolic window per byte offset; IPv6 addresses concrete; length prefixes > 3 octets only on the VLQ primitive.",
            "DESIGN.md 4/C07"),
    "C11": ("CrossHair symbolic execution of MessageReceiver.receive; cut positions enumerated, stream contents symbolic",
            "Solver verdict over all contents of streams <= 10 (quick) / 12 (thorough) bytes and of structured 2-3 frame streams under every "
            "2- and 3-way cut: deliveries, refusal and residual state equal the unfragmented run and a reference parser; size-limit boundary; "
            "the same with MAX_MESSAGE_SIZE patched to 2-3 bytes, which puts messages AT the limit followed by further data inside the bound.",
            "Payload parsing is replaced by a recorder (C07/C20 cover it); longer streams and 4+-way cuts are outside (residual state is compared "
            "after every prefix, which is what makes further cuts redundant).", "DESIGN.md 4/C11"),
    "C04": ("CrossHair symbolic execution of CoinState.add_block_no_validation: inductive step with symbolic heights + all block trees <= 5/6 blocks",
            "Inductive step from an abstract pre-state (heights symbolic over the whole encodable range) proves head/tips/index update rules; "
            "every parent vector for <= 5 (quick) / 6 (thorough; 7 split by case) blocks, each block's target a symbolic choice, is compared "
            "with a reference after each arrival, including forks(); on a chain of 130 (thorough 260) blocks a block and its child on a parent at "
            "any (symbolic) height are stored and every block keeps its index and unspent-output entry.",
            "PyMap stands in for immutables.Map; ids are preset tokens; assumes stated height = parent's + 1 (C05) and the head-is-maximal invariant.",
            "DESIGN.md 4/C04"),
    "C01": ("CrossHair symbolic execution of CoinState.add_block on a directly constructed chain state with an adversarial symbolic spend",
            "Solver verdict for every (reference-pool choice x free 32-bit index x 7 signature-object kinds x symbolic values) in blocks of "
            "<= 2 transactions x <= 2 inputs x <= 2 outputs: accepted implies the stated conditions, rejected leaves the pre-state untouched; "
            "validation reads only the parent's unspent map; equal signed messages imply equal references and outputs; the relay entry "
            "(handle_block_received) refuses unauthorised spends on the head's branch and on a side branch, also when validation fails with a "
            "non-validation error, and rolls back to exactly the state it held.",
            "Ideal signatures (EUF-CMA), tagged-identity hashes, chain-sample oracle, PyMap/PyBytesIO; candidate placed exactly one above "
            "the (patched) checkpoint horizon. Larger blocks are argued compositionally.", "DESIGN.md 4/C01"),
    "C02": ("CrossHair symbolic execution of CoinState.add_block with fully symbolic amounts + z3 integer arithmetic for the cumulative schedule",
            "Solver verdict over all amounts in [0, 2^64) for blocks of <= 2 transactions x <= 2 inputs x <= 2 outputs and <= 2 reward outputs, at "
            "heights on both sides of era boundaries: accepted implies range rules, reward <= subsidy + fees (parent's state) and conservation "
            "of the summed unspent value (also with a richer sibling fork as served head); cumulative bound by induction (z3) from the real genesis.",
            "Same stubs as C01; parent unspent values assumed in (0, MAX] (inductive invariant).", "DESIGN.md 4/C02"),
    "C05": ("CrossHair symbolic execution of the header validators per rule + z3 encoding of calculate_new_target generated from its source",
            "Per rule, the broken quantity is symbolic (32-byte id and target; stated/recorded height; three clocks; stated target choice with the "
            "retarget kernel recorded at its call site on either side of a fork; evidence field bytes; a consistently forged evidence triple; "
            "a block object whose remembered id and header id are independent symbolic 32-byte strings: the id rule is judged on the header); "
            "calculate_new_target is proved equal to min(floor(T*dt/1209600), 2^256-1) for every 256-bit T and dt >= 0 by z3 (two solvers); "
            "the real sampler equals a reference; the node's own assembly passes add_block at and next to a retarget boundary, and the miner's "
            "candidate after a head change builds on and is later than the new head.",
            "Stubs as C01 plus a recorder for calculate_new_target at the call site (the kernel is decided separately) and LRO ids for assembly; "
            "one rule broken at a time; stated height assumed above the checkpoint horizon.", "DESIGN.md 4/C05"),
    "C18": ("CrossHair symbolic execution of validate_block_in_coinstate per checkpointed height (symbolic 32-byte id on an otherwise valid candidate) + concrete anchor with the real scrypt",
            "Solver verdict over every 32-byte id at each checkpointed height (12 heights quick, all thorough): accepted iff id == checkpoint, "
            "with the candidate otherwise fully valid so that a gate comparison off by one is refuted (height 0 with an all-zero parent "
            "included), the verdict being the same on repeated presentation; a forged spend one above the real horizon is rejected; "
            "validate_proof_of_work accepts exactly id < target for every 32-byte id and target (incl. real checkpoint ids of the easy-target era). The recorded real blocks are a concrete anchor (real hash functions, also with an unvalidated fork as head).",
            "Gate part: stubs as C01. Anchor part is not a solver verdict (no quantifier) and is marked as such in the evidence.", "DESIGN.md 4/C18"),
    "C19": ("CrossHair symbolic execution of the peer-book handlers on a node shell + z3 encoding of is_time_to_connect generated from its source",
            "One event from any peer-book state over 3 addresses satisfying the disjointness invariant keeps it (inductive step); back-off rule "
            "proved for every failure count and clock by z3 (two solvers) and exercised through attempt/fail/step with symbolic clocks; "
            "self-connection never re-dialled for any clock; write_peers atomic under a crash before any file operation, <= limit rows, newest first.",
            "Sockets/selector replaced by a recording shell; failure count concrete where the code formats it into a log line; crash analysis with "
            "PEERS_JSON_MAX_LEN=5 (code is parametric), the real limit 100 without crash.", "DESIGN.md 4/C19"),
    "C13": ("CrossHair symbolic execution of ChainManager pool operations on a node shell (one step from an invariant pool state)",
            "Solver verdict per step: a symbolic submission (reference pool x free index x signature kind x value) is admitted only if valid at "
            "the head and disjoint from the pool, otherwise the pool is untouched; after each kind of head change (extension mining a member / a "
            "conflicting spend / several adjacent members at once, switch to and from a sibling fork with a reward-only tip) the pool is exactly the members valid at the new head; "
            "submission / head change / conflicting or forged (two inputs of one key, one unsigned) submission sequences, with the node's "
            "roll-back state different from its current state; a head change arriving while a submission is validated (modelled synchronously at the validation point when the lock is free) leaves "
            "no invalid member; relay only of new admitted transactions.",
            "Node shell; stubs as C01; pool <= 2-4 members; real thread schedules beyond the one modelled interleaving point are outside.", "DESIGN.md 4/C13"),
    "C12": ("CrossHair symbolic execution of MinerWatcher.handle_request_scrypt_input_message / handle_scrypt_output_message on a node shell",
            "Solver verdict over symbolic clocks (assembly and discovery), nonce, parent timestamp and pool fees (0..2 pending transactions, one- and two-input, the two inputs drawn from one earlier transaction) at "
            "ordinary, retarget-boundary and halving heights: the found block passes the node's own add_block, pays exactly subsidy + fees to the "
            "miner's key, is later than its parent, and is adopted (served state incl. a stale candidate that does not become the head, store "
            "calls, broadcast to every peer although one fails to send - nothing leaves before validation); a candidate handed out after a head "
            "change builds on the new head; work after a reorganisation drops the losing branch's pending transaction. "
            "Known finding F5 (clock >= 30 s behind the head) is reported as KNOWN-FINDING and excluded by an added assumption.",
            "MinerWatcher shell without processes/queues; stubs as C01 with LRO ids; elapsed time >= 40000 s at boundaries; competing blocks between "
            "assembly and discovery (threads) outside.", "DESIGN.md 4/C12"),
    "C06": ("CrossHair symbolic execution of Block.deserialize + CoinState.add_block on a valid block's encoding with one byte symbolic (every position) and on every prefix",
            "Solver verdict for every byte position of two valid block encodings (reward only; reward + spend): with the byte replaced by any other "
            "value (covers all 8 single-bit flips) the bytes fail to decode or full validation rejects them - offered to a fresh state and to a "
            "state that already validated and holds the genuine block; every proper prefix likewise. The "
            "adversary gets proof of work for free, so rejection comes from the commitments.",
            "Lazy-table hash oracles (collision-free on the run), ideal signatures, chain-sample oracle; single-byte alterations of two block shapes.",
            "DESIGN.md 4/C06"),
    "C03": ("CrossHair symbolic execution of add_block_no_validation / uto_apply_* / pkb_apply_* / PublicKeyBalances (step from a consistent state + all trees <= 4/5 blocks)",
            "Solver verdict: the new block's unspent map equals a reference application to the parent's map for every parent choice and served head, "
            "all other entries are the identical objects and the old state is unchanged; the (unspent, balances) consistency invariant is preserved "
            "for symbolic owners and values; the replayed balance view reads only ancestors, equals a recount of the stored map and does not depend on "
            "the order in which blocks are asked for; per-block maps "
            "are equal across arrival orders on every tree of <= 4 (quick) / 5 (thorough) blocks.",
            "PyMap for immutables.Map, preset ids; validity precondition of C01 assumed for the applied block.", "DESIGN.md 4/C03"),
    "C14": ("CrossHair symbolic execution of create_spend_transaction / sign_transaction and of the transaction validators on their result",
            "Solver verdict over symbolic balances (3 wallet-owned outputs over 2 keys + foreign outputs), amount, fee and pre-existing used-set, "
            "for two successive requests (also after a confirmed two-input consolidation, after the sibling fork overtook, and across a reorganisation F -> P with an "
            "output used on P only): a returned transaction passes both validators at the head, pays exactly the amount, returns exactly the "
            "rest as change (none when zero), uses only unused wallet outputs and records exactly those; a refusal changes nothing and happens "
            "only when the unused outputs do not cover amount + fee.",
            "Ideal signing key; stubs as C01; total value <= documented maximum; wallets needing ~1977+ inputs (size limit) outside.", "DESIGN.md 4/C14"),
    "C15": ("CrossHair symbolic execution of the wallet's key bookkeeping, dump/load, get_balance and save_wallet (symbolic structure, ghost set of handed-out keys, symbolic crash point)",
            "Solver verdict from every invariant wallet structure over 4 keys: hand-out / restore / save-load / hand-out keeps the invariant and never "
            "re-issues a key while unused ones remain, whatever text the second request carries (known finding F7: exhausted-wallet restore, reported as KNOWN-FINDING and excluded); dump-load "
            "is the identity incl. order; balance = recount of the head's unspent outputs over wallet keys (also when one key is paid twice by one "
            "transaction); save_wallet under a crash before any file operation with eager and buffered writes leaves the complete old or new "
            "file, and a restart through open_or_init_wallet loads exactly one of them (replayed with a real process death on a real directory).",
            "Key bytes / annotation texts concrete (json, hexlify are C/regex code); in-memory file system model for the symbolic run.", "DESIGN.md 4/C15"),
    "C08": ("CrossHair symbolic execution of BlockStore write/flush/read + read_chain_from_disk on a relational stand-in for sqlite3 (schema parsed from the repo's DDL), differentially validated against real sqlite3 every run",
            "Solver verdict for trees of <= 3 (thorough 4) blocks above genesis, all flush batchings (n <= 2) / batched vs one-by-one (n = 3), "
            "case-split extra transactions (pending spend, a conflicting spend on the other fork, a spend of the parent's reward inside one batch, a "
            "two-input spend with descending output indexes), a block written again after its child was flushed, "
            "and symbolic rewards of two same-height blocks, two tie orders: read-back == written (ids, bytes, transaction ids), parents first, "
            "rebuilt ledger identical per block, same head height. Known finding F2 (transaction id shared by two stored blocks) is reported as "
            "KNOWN-FINDING and excluded by an added assumption.",
            "SQLite replaced by a relational model of the statements the store issues (agreement with real sqlite3 checked on 30 scenarios per "
            "run; replays use real SQLite); LRO ids.", "DESIGN.md 4/C08"),
    "C09": ("CrossHair symbolic execution of ConnectedRemotePeer.handle_block_received on a node shell with the real BlockStore on the relational sqlite stand-in",
            "Solver verdict per kind of delivered block (16 kinds: valid on head / on an older block, duplicate, orphan, three by-itself defects, "
            "four in-state defects, apply error, a block whose validation raises a non-validation error, an unauthorised spend on a side branch, an orphan that is delivered again after "
            "its parent, an altered body under a genuine header followed by the genuine block), each also conflicting with the pending "
            "transaction, with symbolic clocks, timestamps, values and reward: accepted iff valid; accepted => in state, flushed, relayed once iff "
            "new head, repeat is a no-op; rejected => served state is the identical object, no published state ever contained the block, store rows, "
            "write buffer and pool untouched; a following valid block is accepted and stored; a refusal whose reason has gone (clock caught up, parent arrived) is not remembered; a block "
            "that overtakes the served head is relayed. The pre-state is published through set_coinstate's default arguments as the miner does.",
            "Node shell, relational sqlite stand-in (validated in C08), stubs as C01 with preset LRO ids; bulk download outside the property.", "DESIGN.md 4/C09"),
    "C20": ("CrossHair symbolic execution of LocalPeer.handle_remote_peer_selector_event down to the decoders and message handlers, on symbolic bytes and on message objects with symbolic fields",
            "Solver verdict (A) for every message type, unknown types, symbolic header / magic bytes and bodies of <= 24 symbolic bytes, before and "
            "after the greeting, and (B) for one message object of each malformed class the handlers distinguish (anything before the greeting incl. "
            "a valid transaction, unknown data type, get-data for a transaction, header data, orphan block, by-itself-invalid block, a block whose "
            "validation raises an internal error, transactions failing each rule, over-limit inventory): no exception escapes the per-connection "
            "handler; chain state object, pool, store buffer/rows and the other peers' connection state are unchanged (also when the current state "
            "was published through set_coinstate's default arguments, as the miner does); nothing is relayed; a corrupted copy of an unknown block "
            "does not prevent the genuine block from being accepted afterwards.",
            "Node shell (recording selector, fake sockets, buffer-only store); length prefixes <= 3 octets; bodies longer than 24 bytes outside.", "DESIGN.md 4/C20"),
    "C10": ("CrossHair symbolic execution of the synchronisation handlers: step lemmas (locator, inventory service, inventory consumption) + one FIFO two-node schedule with symbolic chain shapes",
            "RESTRICTED CLAIM. Decided: the locator formula for every height < 2^32; the inventory service for every (responder height, requester "
            "height, fork height, locator of <= 3 entries, requester branch stored or not, requester lagging on a stored branch that has overtaken) within the bound - the reply is a consecutive run of "
            "active-chain ids whose first item's parent the requester has, non-empty whenever the responder has something the requester lacks, at "
            "most one batch; inventory consumption requests exactly the unknown ids once and always continues after the last item; ChainManager.step issues exactly "
            "one request when nothing is in progress and a candidate exists and none without reason; after convergence a transaction spending a "
            "downloaded output reaches the pool and is passed on once; on one FIFO "
            "schedule two real nodes converge to the greater height with a complete chain and no block is sent twice. NOT decided: convergence "
            "and quiescence under every interleaving and topology on 2-3 nodes (DESIGN.md section 6) - that part of the statement is outside this technique.",
            "Batch size patched to 2/3 (the code is parametric), heights <= 4/6, node shells; relay-once conditions are decided in C09 (blocks) and C13 (transactions).",
            "DESIGN.md 4/C10 and 6"),
}

NOT_YET = "not claimed yet in this revision of /verif: the check is still being built (see DESIGN.md section 4 for the planned decision procedure)"


def main() -> int:
    props = [json.loads(l) for l in open(os.path.join(HERE, "properties.jsonl"))]
    checks = []
    na = []
    extra_na = {}
    p = os.path.join(HERE, "tools", "not_applicable.json")
    if os.path.exists(p):
        extra_na = json.load(open(p))
    for pr in props:
        i = pr["id"]
        if i in CLAIMED:
            tech, text, note, ref = CLAIMED[i]
            checks.append({
                "property_id": i,
                "quick_cmd": "./check %s --tier quick" % i,
                "thorough_cmd": "./check %s --tier thorough" % i,
                "evidence_file": "/verif/evidence/%s.json" % i,
                "replay_cmd_template": "./check %s --replay {path}" % i,
                "engine": "symlib",
                "level_claimed": {"category": "other", "text": text, "design_ref": ref},
                "level_note": note,
                "technique": tech,
            })
        else:
            na.append({"property_id": i, "reason": extra_na.get(i, NOT_YET)})
    man = {
        "version": 1,
        "setup_cmd": "./setup.sh",
        "hooks": {
            "guard": "SKEPTICOIN_VERIF",
            "enable": "no source hooks are needed: harnesses substitute module attributes of the imported repository modules "
                      "from the check process (symlib/stubs); the guard name is reserved and unused",
            "baseline_off_cmd": "cd /repo && /venv/bin/python -m pytest -ra -q -p no:cacheprovider --timeout=900 --continue-on-collection-errors",
            "source_commits": [],
            "add_only": True,
        },
        "engines": [{
            "name": "symlib",
            "path": "/verif/symlib",
            "serves_properties": sorted(CLAIMED),
            "kind_free_text": "bounded symbolic execution of the repository's own Python functions with CrossHair 0.0.110 (z3 5.1.0) "
                              "plus a source->z3 translator for closed arithmetic kernels; counterexamples are replayed against the real code",
        }],
        "checks": checks,
        "notes": "Exit codes of ./check: 0 = held on everything explored, 1 = replayed violation (VIOLATION line), 2 = harness error "
                 "(never a violation). Known findings: /verif/known_findings.json. Fix commits in /repo: see DESIGN.md section 5.",
        "not_applicable": na,
    }
    with open(os.path.join(HERE, "MANIFEST.json"), "w") as f:
        json.dump(man, f, indent=1)
    try:
        import jsonschema
        jsonschema.validate(man, json.load(open("/root/.vp/MANIFEST.schema.json")))
        print("MANIFEST valid; claimed:", len(checks), "not_applicable:", len(na))
    except ImportError:
        print("MANIFEST written (jsonschema not available to validate)")
    return 0


if __name__ == "__main__":
    sys.exit(main())

#!/usr/bin/env python3
"""Confirm a sub-agent's seeded change in a fresh scratch worktree of /repo and file it under
/verif/seeded/<id>/ : patch applies, unedited test suite passes with it, demo fails with it and
passes without it. Usage: confirm_seed.py <PROP> <k> [<srcdir>]"""
import json, os, shutil, subprocess, sys, tempfile, time

def run(cmd, cwd, env=None, timeout=1200):
    e = dict(os.environ); e.update(env or {})
    p = subprocess.run(cmd, cwd=cwd, env=e, shell=True, capture_output=True, text=True, timeout=timeout)
    return p.returncode, (p.stdout + p.stderr)[-3000:]

def main():
    prop, k = sys.argv[1], sys.argv[2]
    src = sys.argv[3] if len(sys.argv) > 3 else "/tmp/wt/%s/mutants/%s" % (prop, k)
    sid = "%s-%s%s" % (prop, os.environ.get("SEED_TAG", "m"), k)
    wt = tempfile.mkdtemp(prefix="seedwt-")
    os.rmdir(wt)
    rec = {"id": sid, "property": prop, "source": "independent sub-agent given only the property text", "ran": []}
    try:
        rc, out = run("git -C /repo worktree add -q --detach %s HEAD" % wt, "/")
        assert rc == 0, out
        demo = os.path.join(src, "demo.py")
        # demos written against /tmp/wt/<prop>: run a copy with the path rewritten to the scratch worktree
        d = open(demo).read().replace("/tmp/wt5/%s" % prop, wt).replace("/tmp/wt4/%s" % prop, wt).replace("/tmp/wt3/%s" % prop, wt).replace("/tmp/wt2/%s" % prop, wt).replace("/tmp/wt/%s" % prop, wt)
        os.makedirs(os.path.join(wt, "mutants", k), exist_ok=True)
        dpath = os.path.join(wt, "mutants", k, "demo.py")
        open(dpath, "w").write(d)
        env = {"PYTHONPATH": wt, "PYTHONDONTWRITEBYTECODE": "1"}
        rc, out = run("git apply --check %s/patch.diff && git apply %s/patch.diff" % (src, src), wt)
        rec["ran"].append(["git apply patch.diff", rc]); assert rc == 0, out
        ok = False
        for attempt in range(4):
            rc, out = run("/venv/bin/python -m pytest -q -p no:cacheprovider --timeout=900 2>&1 | tail -3", wt, env)
            if "64 passed" in out and "failed" not in out:
                ok = True; break
            time.sleep(3)
        rec["ran"].append(["pytest with patch", out.strip().splitlines()[-1] if out.strip() else ""])
        rec["tests_pass_with_patch"] = ok
        rc1, out1 = run("/venv/bin/python %s" % dpath, wt, env, timeout=600)
        rec["ran"].append(["demo with patch", rc1]); rec["demo_with_patch_rc"] = rc1
        run("git checkout -- skepticoin", wt)
        rc2, out2 = run("/venv/bin/python %s" % dpath, wt, env, timeout=600)
        rec["ran"].append(["demo without patch", rc2]); rec["demo_without_patch_rc"] = rc2
        rec["confirmed"] = bool(ok and rc1 != 0 and rc2 == 0)
        rec["demo_with_patch_tail"] = out1[-600:]
        dst = "/verif/seeded/%s" % sid
        os.makedirs(dst, exist_ok=True)
        shutil.copy(os.path.join(src, "patch.diff"), dst)
        shutil.copy(demo, os.path.join(dst, "demo.py"))
        if os.path.exists(os.path.join(src, "notes.md")):
            shutil.copy(os.path.join(src, "notes.md"), dst)
        notes = open(os.path.join(src, "notes.md")).read() if os.path.exists(os.path.join(src, "notes.md")) else ""
        rec["needs_to_manifest"] = "see notes.md"
        json.dump(rec, open(os.path.join(dst, "meta.json"), "w"), indent=1)
        print(sid, "confirmed" if rec["confirmed"] else "NOT CONFIRMED", rec["ran"])
    finally:
        run("git -C /repo worktree remove --force %s" % wt, "/")
        shutil.rmtree(wt, ignore_errors=True)

main()

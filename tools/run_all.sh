#!/bin/bash
# tools/run_all.sh [quick|thorough] [IDs...] : run the registered checks one after another on /repo, print one line each.
cd /verif
TIER=${1:-quick}; shift
IDS=${@:-$(seq -f "C%02g" 1 20)}
for p in $IDS; do
  s=$(date +%s)
  ./check $p --tier $TIER > /tmp/all_$p.$TIER.log 2>&1; rc=$?
  e=$(date +%s)
  echo "$p rc=$rc $((e-s))s $(grep -E "^== $p:" /tmp/all_$p.$TIER.log | tail -1)"
  grep -E "^(VIOLATION|HARNESS-ERROR|INCONCLUSIVE)" /tmp/all_$p.$TIER.log | cut -c1-200 | head -5
done

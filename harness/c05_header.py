"""C05 - header rules: proof of work, difficulty, height and time.

a  id < target numerically: validate_proof_of_work / validate_block_header_by_itself with symbolic
   32-byte id and target (lexicographic vs numeric, equality).
b  target rule: (E2) calculate_new_target == min(floor(T*dt/1209600), 2^256-1) for every 256-bit T
   and every dt >= 0, translated from the source; (E1) the call site: inside a period the stated
   target must equal the parent's, at a boundary it must equal calculate_new_target(parent target,
   ts - ts(block at h-10080 ON THE BLOCK'S OWN ANCESTOR VIEW)) - the kernel is replaced by a recorder
   there and the recorded arguments are compared (either side of a fork).
c  height: accepted => stated height = parent's + 1 = height recorded in the reward transaction.
d  time: accepted => parent.ts < ts <= now + 30.
e  evidence: (i) accepted => each evidence field equals the recomputation (field bytes symbolic),
   recomputation inputs checked through the oracles' argument logs; (ii) the real chain sampler
   against a 10-line reference.
f  own assembly: construct_block_for_mining on any valid parent, at and next to a retarget boundary,
   with 0..1 pending transactions: if parent.ts < ts <= now+30 the block passes add_block.
"""
from __future__ import annotations

import sys
import time
from typing import Any, List, Tuple

from symlib.runner import Ob
from symlib.common import generic_replay, twin_of
from symlib.draw import Draw, Assume, count_draws, witness
from symlib.symblock import World, RETARGET, MAX_FUTURE
from symlib.world import tok, TX, BLK, MAXTARGET

META = {
    "explanation": "Header rules decided per rule on the real validators (validate_proof_of_work, validate_block_header_by_itself, "
                   "validate_block_summary_in_coinstate, calc_target, validate_coinbase_transaction_in_coinstate, construct_pow_evidence*) "
                   "with the broken quantity symbolic; calculate_new_target encoded in z3 from its source for every 256-bit target and "
                   "every elapsed time; the real chain sampler against a reference; the node's own block assembly accepted by add_block.",
    "technique": "CrossHair symbolic execution of the header validators + z3 encoding of calculate_new_target generated from the source",
    "bounds": "one rule broken at a time; heights {2, 10080, 10081, 20160}; evidence sampling 8x4 fixed in (i); sampler (ii): block bytes "
              "1..8, slice length 1..5 and 23, height <= 6; assembly with <= 1 pending transaction",
    "outside": "negative elapsed time (excluded by strictly increasing timestamps); combinations of several broken rules",
    "stubs": ["PyMap", "PyBytesIO", "tagged-identity hashes / LRO ids", "chain-sample oracle in (i)", "calculate_new_target recorder at the call site",
              "ideal signatures"],
    "assumptions": ["hashes collision-free", "stated height above the checkpoint horizon (below it in-state validation is skipped by design: C18)"],
}

C_POW = "accepted only if the id is numerically below the stated target"
C_TGT = "stated target is the one the retargeting rule prescribes from the block's own ancestors"
C_HGT = "height = parent's + 1 = height recorded in the reward transaction"
C_TIME = "timestamp strictly later than the parent's and at most 30 s ahead of the validator's clock"
C_EV = "evidence equals the recomputation from summary, selected ancestor blocks and the full transaction list"
C_OWN = "every block the node's own assembly produces satisfies all rules once its id is below target"


# ------------------------------------------------------------------------------------------------ a


def pow_rule(via_header: bool, twin: bool = False, real: bool = False):
    W = World(real=real)
    cons, dt = W.cons, W.dt

    def check_pow(idb: bytes, tgt: bytes, ts: int, now: int) -> bool:
        """
        post: _
        """
        if len(idb) != 32 or len(tgt) != 32:
            return True
        if not (0 <= ts < 2 ** 32 and 0 <= now < 2 ** 32):
            return True
        try:
            if via_header:
                hdr = dt.BlockHeader(dt.BlockSummary(2, tok(BLK, 1), tok(BLK, 9), ts, tgt, 0), dt.PowEvidence(b"", b"", b""))
                hdr.hash = lambda: idb      # the id is whatever the hash function yields: any 32 bytes
                cons.validate_block_header_by_itself(hdr, now)
            else:
                cons.validate_proof_of_work(idb, tgt)
            accepted = True
        except Exception:
            accepted = False
        if twin:
            return not accepted
        if accepted:
            if not (int.from_bytes(idb, "big") < int.from_bytes(tgt, "big")):
                return False
            if via_header and not (ts <= now + MAX_FUTURE):
                return False
        return True

    return check_pow, {"idb": b"\x00" * 32, "tgt": b"\x01" + b"\x00" * 31, "ts": 5, "now": 5}


def pow_rule_block(twin: bool = False, real: bool = False):
    """The id-below-target rule on a block OBJECT that carries a remembered id (set at decode time or handed to the
    constructor) which is not the id of its header: the rule is about the header being validated, not the remembered value."""
    W = World(real=real)
    cons, dt = W.cons, W.dt

    def check_pow_block(idb: bytes, idc: bytes, tgt: bytes, ts: int, now: int) -> bool:
        """
        post: _
        """
        if len(idb) != 32 or len(idc) != 32 or len(tgt) != 32:
            return True
        if not (0 <= ts < 2 ** 32 and 0 <= now < 2 ** 32):
            return True
        if not real:
            W._install_crypto()
        cb = W.env.coinbase(2, [dt.Output(1, W.keys[3])], tok(TX, 20))
        try:
            hdr = dt.BlockHeader(dt.BlockSummary(2, tok(BLK, 1), W.ref_merkle([cb.hash()]), ts, tgt, 0),
                                 dt.PowEvidence(b"\x00" * 32, b"\x00" * 32, b"\x00" * 32))
            hdr.hash = lambda: idb          # the header's id: any 32 bytes
            block = dt.Block(hdr, [cb], hash=idc)       # the remembered id: any 32 bytes
            cons.validate_block_by_itself(block, now)
            accepted = True
        except Exception:
            accepted = False
        if twin:
            return not accepted
        if accepted:
            if not (int.from_bytes(idb, "big") < int.from_bytes(tgt, "big")):
                return False
            if not (ts <= now + MAX_FUTURE):
                return False
        return True

    return check_pow_block, {"idb": b"\x00" * 32, "idc": b"\x7f" * 32, "tgt": b"\x01" + b"\x00" * 31, "ts": 5, "now": 5}


# ------------------------------------------------------------------------------------------------ b (E2)


def new_target_kernel():
    import z3
    from symlib.e2 import Translator, Queries, BytesVal, TranslationError
    from symlib.prelude import import_repo
    import_repo()
    import skepticoin.consensus as cons
    t0 = time.time()
    T, dtv = z3.Ints("T dt")
    tr = Translator(cons.calculate_new_target)
    paths = tr.run({"previous_target": BytesVal(32, T), "actual_time_passed": dtv})
    Q = Queries()
    D = 1_209_600
    CAP = 2 ** 256 - 1
    dom = [T >= 0, T <= CAP, dtv >= 0]
    failed: List[str] = []
    spec = z3.If((T * dtv) / D > CAP, z3.IntVal(CAP), (T * dtv) / D)
    conds = []
    for i, p in enumerate(paths):
        if p.raises or not isinstance(p.ret, BytesVal) or p.ret.n != 32:
            failed.append("path %d: unexpected shape" % i)
            continue
        conds.append(p.cond)
        if not Q.sat("path%d" % i, dom + [p.cond]):
            failed.append("path %d unreachable (vacuous)" % i)
        r, m = Q.check("path%d: result == min(floor(T*dt/1209600), 2^256-1) and encodable in 32 bytes" % i,
                       dom + [p.cond] + tr.extra_assumptions, z3.Not(z3.And(p.ret.val == spec, *p.side)))
        if r != "unsat":
            failed.append("path %d: %s %s" % (i, r, m))
    r, m = Q.check("paths cover the domain", dom, z3.Not(z3.Or(*conds)))
    if r != "unsat":
        failed.append("coverage: %s" % r)
    # translator validation: the repository's own test vectors and boundary values through the real function and the encoding
    vectors = [(2 ** 248, D), (2 ** 248, D // 2), (2 ** 248, 2 * D), (CAP, 2 * D), (CAP, D), (1, D - 1), (0, 5), (12345678901234567890, 7),
               (2 ** 255, D + 1), (3, 403200), (2 ** 200 + 17, 1), (CAP, 0)]
    mism = 0
    for (tv, dv) in vectors:
        real_out = int.from_bytes(cons.calculate_new_target(tv.to_bytes(32, "big"), dv), "big")
        ok = False
        for p in paths:
            s = z3.Solver()
            s.add(T == tv, dtv == dv, p.cond)
            if str(s.check()) == "sat":
                s.add(p.ret.val != real_out)
                ok = str(s.check()) == "unsat"
        if not ok:
            mism += 1
    if mism:
        return {"status": "error", "detail": "translator disagrees with the real function on %d vectors" % mism, "queries": Q.count}
    return {"status": "confirmed" if not failed else "refuted", "detail": "; ".join(failed) or
            "calculate_new_target == min(floor(T*dt/1209600), 2^256-1) for all 0<=T<2^256, dt>=0 (%d paths, %d queries, %d vectors validated)"
            % (len(paths), Q.count, len(vectors)), "queries": Q.count, "solver_s": Q.time, "paths": len(paths),
            "model": ({"failed": failed} if failed else None), "translator_log": tr.log, "query_log": Q.log,
            "functions": ["skepticoin.consensus:calculate_new_target"], "wall": time.time() - t0}


# ------------------------------------------------------------------------------------------------ b (E1 call site), c, d


def summary_rules(h: int, served_head: str, twin: bool = False, real: bool = False):
    """Stated target / height / time against the parent, with the retarget kernel replaced by a recorder."""
    W = World(real=real, h=h, served_head=served_head)
    W.sample_grant = True        # the adversary grinds sampled indices that exist: the height rule itself must refuse
    dt, cons = W.dt, W.cons
    boundary = (h % RETARGET == 0)
    NT = bytes([0x4E, 0x54]) + bytes([0xEE]) * 30
    PT = bytes([0x50, 0x54]) + bytes([0xDD]) * 30       # the parent's target
    OTHER = bytes([0x58, 0x58]) + bytes([0xCC]) * 30

    def check_summary(ts: int, pts: int, now: int, hs: int, hr: int, tsel: int, sp: int, sf: int) -> bool:
        """
        post: _
        """
        if not (0 <= ts < 2 ** 32 and 0 <= pts < 2 ** 32 and 0 <= now < 2 ** 32 and 0 <= sp < 2 ** 32 and 0 <= sf < 2 ** 32):
            return True
        if not (h - 1 < hs <= 2 ** 32 - 1 and 0 <= hr <= 2 ** 32 - 1):     # stated height above the horizon (see META)
            return True
        if not (0 <= tsel <= 2):
            return True
        if not real:
            W._install_crypto()
        calls: List[Tuple[Any, Any]] = []
        real_kernel = cons.calculate_new_target

        def recorder(previous_target: bytes, actual_time_passed: int) -> bytes:
            calls.append((previous_target, actual_time_passed))
            return NT
        cons.calculate_new_target = recorder
        try:
            pre = W.state([5, 6, 7, 8], pts=pts, ptarget=PT, start_ts=(sp, sf) if boundary else None)
            stated = [PT, NT, OTHER][tsel]
            cb = W.env.coinbase(hr, [dt.Output(1, W.keys[3])], tok(TX, 20))
            try:
                block = W.candidate(pre, [cb], ts, height=hs, target=stated)
            except Exception:
                # evidence for a stated height without ancestors cannot be derived; the adversary's best effort is the
                # evidence of the true height
                summ = dt.BlockSummary(hs, W.P.hash(), W.ref_merkle([cb.hash()]), ts, stated, 0)
                block = W.candidate(pre, [cb], ts, height=hs, target=stated, evidence=W.ref_evidence(summ, h, W.P, pre, [cb]))
            del calls[:]
            try:
                pre.add_block(block, now)
                accepted = True
            except Exception:
                accepted = False
            # a sibling candidate (same parent, one second later) is judged on its own timestamp
            second = None
            if accepted and boundary and ts + 1 <= now + MAX_FUTURE and ts + 1 < 2 ** 32:
                first_calls = list(calls)
                del calls[:]
                cb2 = W.env.coinbase(hr, [dt.Output(1, W.keys[3])], tok(TX, 24))
                try:
                    sib = W.candidate(pre, [cb2], ts + 1, height=hs, target=stated, bid=tok(BLK, 9))
                    pre.add_block(sib, now)
                    second = (True, list(calls))
                except Exception:
                    second = (False, list(calls))
                calls[:] = first_calls
        finally:
            cons.calculate_new_target = real_kernel
        if twin:
            return not accepted
        if not accepted:
            return True
        if second is not None:
            ok2, calls2 = second
            if not ok2 or len(calls2) != 1 or calls2[0][0] != PT or calls2[0][1] != ts + 1 - sp:
                return False
        if not (pts < ts <= now + MAX_FUTURE):
            return False
        if not (hs == h and hr == h):
            return False
        if boundary:
            if tsel != 1 or len(calls) != 1:
                return False
            if calls[0][0] != PT or calls[0][1] != ts - sp:      # elapsed time from the block's OWN ancestor at h-10080
                return False
        else:
            if tsel != 0 or len(calls) != 0:
                return False
        return True

    return check_summary, {"ts": 3000, "pts": 2000, "now": 3000, "hs": h, "hr": h, "tsel": 1 if boundary else 0, "sp": 100, "sf": 200}


# ------------------------------------------------------------------------------------------------ e (i)


def evidence_field(field: int, twin: bool = False, real: bool = False):
    W = World(real=real)
    dt = W.dt

    def make(pv):
        pre = W.state(pv)
        cb = W.env.coinbase(W.h, [dt.Output(1, W.keys[3])], tok(TX, 20))
        tx = W.make_tx(tok(TX, 21), [(0, 0, 0)], [(3, 1)], pv, cb.hash(), None)
        good = W.candidate(pre, [cb, tx], 3000)
        return pre, cb, tx, good
    _, _, _, g0 = make([5, 6, 7, 8])
    ev0 = g0.header.pow_evidence
    L = len([ev0.summary_hash, ev0.chain_sample, ev0.block_hash][field])

    def check_evidence(sb: bytes) -> bool:
        """
        post: _
        """
        if len(sb) != 4:
            return True
        if not real:
            W._install_crypto()
        pre, cb, tx, good = make([5, 6, 7, 8])
        ev = good.header.pow_evidence
        parts = [ev.summary_hash, ev.chain_sample, ev.block_hash]
        correct = parts[field]
        # the stated field: the correct bytes with the first two and the last two replaced by symbolic bytes (the
        # comparison in the validator is whole-string equality, so where the difference sits does not matter)
        b = sb[:2] + correct[2:L - 2] + sb[2:]
        parts[field] = b
        block = W.candidate(pre, [cb, tx], 3000, evidence=dt.PowEvidence(parts[0], parts[1], parts[2]))
        if not real:
            del W.scrypt.log[:]
            del W.blake2.log[:]
            del W.sample_log[:]
        try:
            pre.add_block(block, 3000)
            accepted = True
        except Exception:
            accepted = False
        if twin:
            return not accepted
        if accepted and b != correct:
            return False
        if not real:
            # what the validator fed to the three functions
            if len(W.scrypt.log) < 1:
                return False
            summary_bytes = block.header.summary.serialize()
            if W.scrypt.log[0][0] != summary_bytes + (W.h).to_bytes(8, "big"):
                return False
            if len(W.sample_log) < 1 or W.sample_log[0] != (W.h, W.P.hash()):
                return False
            if accepted:
                f = W.env.ser.BytesIO()
                W.env.ser.stream_serialize_list(f, [cb, tx])
                if len(W.blake2.log) < 1 or W.blake2.log[0][0] != ev.summary_hash + ev.chain_sample + f.getvalue():
                    return False
        return True

    c0 = [ev0.summary_hash, ev0.chain_sample, ev0.block_hash][field]
    return check_evidence, {"sb": c0[:2] + c0[L - 2:]}


def evidence_forged(twin: bool = False, real: bool = False):
    """A consistently forged evidence triple: an arbitrary summary hash with sample and block hash derived from it."""
    W = World(real=real)
    dt = W.dt

    def check_forged(sb: bytes) -> bool:
        """
        post: _
        """
        if len(sb) != 2:
            return True
        if not real:
            W._install_crypto()
        pv = [5, 6, 7, 8]
        pre = W.state(pv)
        cb = W.env.coinbase(W.h, [dt.Output(1, W.keys[3])], tok(TX, 20))
        tx = W.make_tx(tok(TX, 21), [(0, 0, 0)], [(3, 1)], pv, cb.hash(), None)
        good = W.candidate(pre, [cb, tx], 3000)
        correct = good.header.pow_evidence.summary_hash
        fake = correct[:len(correct) - 2] + sb
        block = W.candidate(pre, [cb, tx], 3000, nonce=good.header.summary.nonce, forge_sh=fake)
        try:
            pre.add_block(block, 3000)
            accepted = True
        except Exception:
            accepted = False
        if twin:
            return not accepted
        return (not accepted) or fake == correct

    return check_forged, {"sb": b"\x00\x02"}


def evidence_other_view(twin: bool = False, real: bool = False):
    """While the sibling fork is the served head: evidence whose chain sample (and the block hash over it) was taken from
    the HEAD's chain instead of the block's own ancestors must be rejected; the honest evidence is what the validator expects."""
    W = World(real=real, served_head="F")
    dt = W.dt

    def check_other_view(ts: int, ov: int) -> bool:
        """
        post: _
        """
        if not (2001 < ts < 2 ** 31 and 1 <= ov <= 5):
            return True
        if not real:
            W._install_crypto()
        pv = [5, 6, 7, 8]
        pre = W.state(pv)
        cb = W.env.coinbase(W.h, [dt.Output(1, W.keys[3])], tok(TX, 20))
        tx = W.make_tx(tok(TX, 21), [(0, 0, 0)], [(ov, 1)], pv, cb.hash(), None)
        good = W.candidate(pre, [cb, tx], ts)
        ev = good.header.pow_evidence
        idx_head = pre.block_by_height_by_hash[W.F.hash()]
        foreign_sample = W.sample(ev.summary_hash, W.h, lambda hh: idx_head[hh])
        f = W.env.ser.BytesIO()
        W.env.ser.stream_serialize_list(f, [cb, tx])
        foreign = dt.PowEvidence(ev.summary_hash, foreign_sample, W.blake2(ev.summary_hash + foreign_sample + f.getvalue()))
        cheat = W.candidate(pre, [cb, tx], ts, evidence=foreign, nonce=good.header.summary.nonce)
        if foreign_sample == ev.chain_sample:
            return True
        try:
            pre.add_block(cheat, ts)
            accepted = True
        except Exception:
            accepted = False
        if twin:
            return accepted
        return not accepted

    return check_other_view, {"ts": 3000, "ov": 3}


# ------------------------------------------------------------------------------------------------ e (ii)


def _pow_env(real: bool):
    from symlib.prelude import import_repo
    import_repo()
    import skepticoin.pow as pw
    if real:
        import importlib
        import skepticoin.hash as hmod
        importlib.reload(hmod)
        pw.sha256d = hmod.sha256d
        H = hmod.sha256d
    else:
        def H(b: bytes) -> bytes:
            return b"\x01" + b
        pw.sha256d = H
    return pw, H


class _B:
    def __init__(self, data: bytes):
        self.data = data

    def serialize(self) -> bytes:
        return self.data


def _ref_slice(start: int, blk: bytes, n: int) -> bytes:
    """n bytes of blk read from offset start; when the end is reached reading restarts at offset 0 (and again)."""
    out = b""
    i = start
    while len(out) < n:
        out += blk[i:i + 1]
        i = i + 1
        if i >= len(blk):
            i = 0
    return out


def sampler_height(twin: bool = False, real: bool = False):
    pw, H = _pow_env(real)

    def check_sampler_height(hb: bytes, height: int) -> bool:
        """
        post: _
        """
        if len(hb) != 10 or not (1 <= height <= 2 ** 32):
            return True
        got = pw.select_block_height(hb + b"\x55" * 22, height)
        if twin:
            return False
        v = 0
        for x in hb[:8]:
            v = v * 256 + x
        return got == v % height and 0 <= got < height

    return check_sampler_height, {"hb": b"\x00" * 9 + b"\x07", "height": 3}


def sampler_slice(blen: int, k: int, twin: bool = False, real: bool = False):
    pw, H = _pow_env(real)

    def check_sampler_slice(sb: bytes, data: bytes) -> bool:
        """
        post: _
        """
        if len(sb) != 4 or len(data) != blen:
            return True
        hsh = b"\x11" * 8 + sb + b"\x22" * 20
        got = pw.select_block_slice(hsh, data, k)
        if twin:
            return False
        base = ((sb[0] * 256 + sb[1]) * 256 + sb[2]) * 256 + sb[3]
        return got == _ref_slice(base % blen, data, k) and len(got) == k

    return check_sampler_slice, {"sb": b"\x00\x00\x00\x02", "data": bytes(range(1, blen + 1))}


def sampler_chain(n: int, twin: bool = False, real: bool = False):
    """Chaining: slice i is taken with hash_i, hash_{i+1} = sha256d(hash_i || slice_i); block contents symbolic."""
    pw, H = _pow_env(real)

    def check_sampler_chain(d0: bytes, d1: bytes) -> bool:
        """
        post: _
        """
        if len(d0) != 5 or len(d1) != 3:
            return True
        blocks = [_B(d0), _B(d1)]
        start = bytes(range(40, 72))
        calls = []

        def get(i: int):
            calls.append(i)
            return blocks[i]
        out = pw.select_n_k_length_slices_from_chain(start, 2, get, n, 4)
        if twin:
            return False
        cur = start
        exp = b""
        for j in range(n):
            bh = int.from_bytes(cur[:8], "big") % 2
            blk = blocks[bh].serialize()
            s = _ref_slice(int.from_bytes(cur[8:12], "big") % len(blk), blk, 4)
            exp += s
            if j != n - 1:
                cur = H(cur + s)
        return out == exp and len(calls) == n

    return check_sampler_chain, {"d0": b"abcde", "d1": b"xyz"}


# ------------------------------------------------------------------------------------------------ f


def assembly(h: int, with_tx: bool, twin: bool = False, real: bool = False):
    W = World(real=real, h=h, served_head="P")
    dt, cons = W.dt, W.cons
    boundary = (h % RETARGET == 0)

    def check_assembly(now: int, now2: int, nonce: int, pts: int, sp: int, ov: int) -> bool:
        """
        post: _
        """
        if not (0 <= now < 2 ** 32 and 0 <= now2 < 2 ** 32 and 0 <= nonce < 2 ** 32 and 0 <= pts < 2 ** 32 and 0 <= sp < 2 ** 32):
            return True
        if not (1 <= ov <= 5):
            return True
        if not real:
            W._install_crypto()
            from symlib.stubs.oracles import LRO
            W.dt.sha256d = LRO(0x07)     # ids of objects the repository builds itself must be 32 bytes
        pre = W.state([5, 6, 7, 8], pts=pts, ptarget=(MAXTARGET if not boundary else b"\x00" * 16 + b"\xff" * 16),
                      start_ts=(sp, sp + 1) if boundary else None)
        pool = []
        if with_tx:
            pool = [W.make_tx(None, [(0, 0, 0)], [(ov, 1)], [5, 6, 7, 8], tok(TX, 99), None)]
        try:
            block = cons.construct_block_for_mining(pre, pool, W.keys[2], now, b"", nonce)
        except Exception:
            # assembly may legitimately fail only where no valid block exists: elapsed time <= 0 at a boundary makes the
            # new target negative (not encodable)
            return boundary and not (now - sp >= 0)
        if twin:
            return False
        idok = block.hash() < block.target
        try:
            pre.add_block(block, now2)
            accepted = True
        except Exception:
            accepted = False
        if idok and pts < now <= now2 + MAX_FUTURE:
            return accepted
        return True

    return check_assembly, {"now": 3000, "now2": 3001, "nonce": 1, "pts": 2000, "sp": 1000, "ov": 3}


def miner_after_head_change(twin: bool = False, real: bool = False):
    """The node's own assembly as the miner drives it: a candidate handed out after the head has changed is built on the new
    head and is later than it (harness shared with C12)."""
    from harness import c12_mining
    return c12_mining.stale_candidate(twin=twin, real=real)


def obligations(tier: str, known: List[str]) -> List[Ob]:
    thorough = tier == "thorough"
    T = 1500 if thorough else 600
    obs: List[Ob] = []
    obs.append(Ob("a.pow[validate_proof_of_work]", C_POW, "pow_rule", {"via_header": False}, timeout=T))
    obs.append(Ob("a.pow+future[validate_block_header_by_itself]", C_POW + "; " + C_TIME, "pow_rule", {"via_header": True}, timeout=T))
    obs.append(twin_of(obs[-1]))
    obs.append(Ob("a.pow+future[validate_block_by_itself,remembered-id-differs-from-header-id]", C_POW + "; " + C_TIME, "pow_rule_block", {}, timeout=T))
    obs.append(twin_of(obs[-1]))
    obs.append(Ob("b.new-target-kernel", C_TGT, "new_target_kernel", {}, kind="e2"))
    for h in ((2, RETARGET, RETARGET + 1, 2 * RETARGET) if thorough else (2, RETARGET, RETARGET + 1)):
        for head in ("P", "F"):
            obs.append(Ob("bcd.summary-rules[h=%d,head=%s]" % (h, head), C_TGT + "; " + C_HGT + "; " + C_TIME, "summary_rules",
                          {"h": h, "served_head": head}, timeout=T))
    obs.append(twin_of([o for o in obs if o.name == "bcd.summary-rules[h=%d,head=F]" % RETARGET][0], timeout=300))
    obs.append(twin_of([o for o in obs if o.name == "bcd.summary-rules[h=2,head=P]"][0], timeout=300))
    for f in range(3):
        obs.append(Ob("e.evidence-field[%s]" % ["summary_hash", "chain_sample", "block_hash"][f], C_EV, "evidence_field", {"field": f}, timeout=T))
    obs.append(twin_of(obs[-1], timeout=300))
    obs.append(Ob("e.evidence-sampled-from-the-served-head's-chain", C_EV, "evidence_other_view", {}, timeout=T))
    obs.append(twin_of(obs[-1], timeout=300))
    obs.append(Ob("e.evidence-forged-consistently", C_EV, "evidence_forged", {}, timeout=T))
    obs.append(twin_of(obs[-1], timeout=300))
    obs.append(Ob("e.sampler.height", C_EV, "sampler_height", {}, timeout=T))
    for blen in ((1, 2, 3, 5, 8) if thorough else (1, 3, 8)):
        for k in ((1, 2, 3, 4, 5, 23) if thorough else (1, 4, 23)):
            obs.append(Ob("e.sampler.slice[blocklen=%d,k=%d]" % (blen, k), C_EV, "sampler_slice", {"blen": blen, "k": k}, timeout=T))
    obs.append(twin_of(obs[-1], timeout=120))
    for n in ((1, 2, 3, 8) if thorough else (1, 3)):
        obs.append(Ob("e.sampler.chain[n=%d]" % n, C_EV, "sampler_chain", {"n": n}, timeout=T))
    for h in (2, RETARGET, RETARGET + 1):
        for wt in (False, True):
            obs.append(Ob("f.assembly[h=%d,pool=%d]" % (h, int(wt)), C_OWN, "assembly", {"h": h, "with_tx": wt}, timeout=T))
    obs.append(twin_of(obs[-1], timeout=300))
    obs.append(Ob("f.assembly[miner, candidate handed out after the head changed]", C_OWN, "miner_after_head_change", {}, timeout=T))
    return obs


def replay(ob: Ob, model):
    if ob.kind == "e2":
        out = new_target_kernel()
        return {"reproduced": out["status"] == "refuted", "detail": out["detail"], "key": None}
    return generic_replay(sys.modules[__name__], ob, model)

"""C10 - synchronisation converges and relay terminates: step lemmas + one bounded schedule.

What is decided here (see DESIGN section 6 for what is not):
 a locator: get_recent_block_heights(h) for symbolic h - strictly decreasing, starts at h, inside
   [0,h], contains h-j (j<10) and h-x^2 (4<=x<64) whenever non-negative.
 b inventory service: the real handle_get_blocks_message_received on a responder holding an active
   chain Y (height a) and optionally the requester's branch X (height r, fork height f) as a stored
   side branch, for any strictly decreasing locator of <= 3 requester heights starting at its tip;
   inventory batch size patched to 3. The reply is a run of consecutive active-chain ids whose first
   item's parent is a block the REQUESTER has (so it can be attached), it is non-empty whenever the
   responder's active chain has something the requester lacks (unless the requester's known tip is
   at least as high), and it never exceeds the batch size.
 c inventory consumption: the real handle_inventory_message_received requests exactly the unknown ids,
   each once, always asks for the batch after the last item, refuses an over-limit inventory.
 d relay-once: a block is relayed only when new and head (C09 covers it with the store attached); a
   transaction only when new and admitted (C13); repeated here without the store.
 e bounded schedule: two real nodes (shells), requester on X, responder on Y, messages delivered in
   FIFO order until no message is in flight, chain shape (a, r, f) symbolic small integers: the
   requester ends at the greater height holding the complete chain of its head; each block data
   message is sent at most once per request.
"""
from __future__ import annotations

import sys
from typing import Any, Dict, List, Optional, Tuple

from symlib.runner import Ob
from symlib.common import generic_replay, twin_of
from symlib.world import Env, tok, TX, ZERO32, MAXTARGET

META = {
    "explanation": "Step lemmas of the synchronisation protocol on the real handlers (locator, inventory service, inventory consumption, relay "
                   "conditions) plus one deterministic (FIFO) two-node schedule with symbolic chain shapes. Global convergence under EVERY "
                   "interleaving and topology is not decided by this technique (DESIGN section 6).",
    "technique": "CrossHair symbolic execution of the sync handlers (step lemmas; chain shapes as symbolic small integers)",
    "bounds": "locator height < 2^32; service: heights <= 4 (quick) / 6 (thorough), requester at any height <= the stored branch, locator <= 3 entries, batch size 3; step: <= 3 peers; FIFO schedule: heights <= 5, batch size 2",
    "outside": "all interleavings / topologies on 2-3 nodes (explicit-state exploration, a different technique); the real batch size 500; timers",
    "stubs": ["node shells", "PyMap", "tagged-identity hashes", "preset ids", "GET_BLOCKS_INVENTORY_SIZE patched (the code is parametric in it)"],
    "assumptions": ["lemma e uses one schedule only"],
}

C_LOC = "block locator: recent heights dense, then quadratically spaced"
C_SRV = "a node asked for blocks answers with the next ids of its active chain after the newest locator entry on that chain"
C_INV = "inventory consumption: request unknown ids once, immediately ask for the next batch"
C_RLY = "each node relays a given block or transaction at most once"
C_CONV = "once no message is in flight the requester's head has the greatest height and it stores the complete chain of its head (one FIFO schedule)"


def locator(twin: bool = False, real: bool = False):
    from symlib.prelude import import_repo_networking
    import_repo_networking()
    import skepticoin.networking.manager as mgr

    def check_locator(h: int) -> bool:
        """
        post: _
        """
        if not (0 <= h < 2 ** 32):
            return True
        hs = mgr.get_recent_block_heights(h)
        if twin:
            return False
        # reference: h - j for j < 10, then h - x^2 for 4 <= x < 64, keeping the non-negative ones
        olds = list(range(10)) + [x * x for x in range(4, 64)]
        ref = []
        for o in olds:
            if h - o >= 0:
                ref.append(h - o)
        if hs != ref or len(hs) == 0 or hs[0] != h:
            return False
        # strictly decreasing (so a locator built from it walks back in time) and inside [0, h]
        prev = h + 1
        for x in hs:
            if not (0 <= x < prev):
                return False
            prev = x
        return len(hs) <= 70

    return check_locator, {"h": 5000}


# -- chains ----------------------------------------------------------------------------------------


def _chain(env: Env, label: int, upto: int, fork: int, base: Optional[List[Any]] = None) -> List[Any]:
    """Blocks at heights 0..upto; heights <= fork are shared with `base` (the other chain)."""
    dt = env.dt
    out: List[Any] = []
    for h in range(upto + 1):
        if base is not None and h <= fork and h < len(base):
            out.append(base[h])
            continue
        cb = env.coinbase(h, [dt.Output(1, env.sg.SECP256k1PublicKey(bytes([0xC1]) * 64))], tok(TX, 16 * label + h))
        prev = ZERO32 if h == 0 else out[h - 1].hash()
        out.append(env.block(h, prev, [cb], tok(0xB0 + label, h), ts=1000 + 10 * h + label, merkle=cb.hash()))
    return out


def _state(env: Env, first: List[Any], then: List[Any]) -> Any:
    cs = env.empty_state()
    for b in first:
        cs = cs.add_block_no_validation(b)
    for b in then:
        if b.hash() not in cs.block_by_hash:
            cs = cs.add_block_no_validation(b)
    return cs


def _shell(real: bool):
    env = Env(real=real, networking=True)
    from symlib import nodeshell as ns
    import skepticoin.networking.remote_peer as rpm
    import skepticoin.networking.messages as ms
    import skepticoin.networking.manager as mgr
    if not real:
        from symlib.stubs.oracles import TI, install_hashes
        install_hashes(TI(b"\x01"), TI(b"\x02"), TI(b"\x03"))
    return env, ns, rpm, ms, mgr


def service(stored_branch: bool, a_fixed: int, rmax: int = 6, twin: bool = False, real: bool = False):
    env, ns, rpm, ms, mgr = _shell(real)
    N = 3

    def check_service(a: int, r: int, f: int, l1: int, l2: int, nloc: int, q: int) -> bool:
        """
        post: _
        """
        if a != a_fixed:
            return True
        if not (1 <= a <= 6 and 0 <= r <= rmax and 0 <= f <= a and f <= r and 1 <= nloc <= 3 and 0 <= q <= r):
            return True
        if not stored_branch and q != r:
            return True         # X beyond the requester's tip exists only where the responder has stored it
        if not (0 <= l2 < l1 < q or nloc == 1 or (nloc == 2 and 0 <= l1 < q)):
            return True
        saved = rpm.GET_BLOCKS_INVENTORY_SIZE
        rpm.GET_BLOCKS_INVENTORY_SIZE = N
        try:
            Y = _chain(env, 2, a, a)
            X = _chain(env, 1, r, f, base=Y)
            # responder: Y first (so Y stays active on ties), then optionally the requester's branch as a side branch
            cs = _state(env, Y, X if stored_branch else [])
            if cs.current_chain_hash != Y[a].hash() and not (stored_branch and r > a):
                return True
            active = X if (stored_branch and r > a) else Y
            atop = len(active) - 1
            lp = ns.make_node()
            lp.chain_manager.coinstate = cs
            peer = ns.connect_peer(lp, "10.0.0.1", 1000, "INCOMING")
            sent: List[Any] = []
            peer.send_message = lambda m, prev_header=None: sent.append(m)
            # the requester has X[0..q] (q < r: it lags behind on a branch the responder has stored in full)
            heights = [q, l1, l2][:nloc]
            peer.handle_get_blocks_message_received(ms.MessageHeader(1, 5, 0, 7), ms.GetBlocksMessage([X[h].hash() for h in heights]))
        finally:
            rpm.GET_BLOCKS_INVENTORY_SIZE = saved
        if twin:
            return not (len(sent) == 1 and len(sent[0].items) > 0)
        if len(sent) != 1 or not isinstance(sent[0], ms.InventoryMessage):
            return False
        items = [i.hash for i in sent[0].items]
        if len(items) > N:
            return False
        for i in sent[0].items:
            if i.data_type != ms.DATA_BLOCK:
                return False
        if items:
            # a run of consecutive active-chain ids ...
            pos = [h for h in range(len(active)) if active[h].hash() == items[0]]
            if len(pos) != 1:
                return False
            s = pos[0]
            if s < 1 or items != [b.hash() for b in active[s:s + len(items)]]:
                return False
            # ... that the requester can attach: the parent of the first item is one of the requester's blocks
            if active[s - 1].hash() not in [b.hash() for b in X[:q + 1]]:
                return False
            # ... and as long as the batch size allows
            if len(items) != min(N, atop - s + 1):
                return False
        else:
            # nothing offered only if the responder's active chain has nothing the requester lacks, or the requester's
            # tip is known to the responder and at least as high as its own
            lacks = ((active is Y) and a > f) or ((active is X) and q < atop)
            if lacks and not (stored_branch and q >= atop):
                return False
        return True

    return check_service, {"a": a_fixed, "r": 3, "f": 1, "l1": 2, "l2": 0, "nloc": 3, "q": 3}


def consumption(twin: bool = False, real: bool = False):
    env, ns, rpm, ms, mgr = _shell(real)

    def check_consumption(r: int, k0: bool, k1: bool, k2: bool, n: int) -> bool:
        """
        post: _
        """
        if not (0 <= r <= 3 and 0 <= n <= 3):
            return True
        X = _chain(env, 1, r, r)
        Y = _chain(env, 2, 5, 0, base=X)
        lp = ns.make_node()
        lp.chain_manager.coinstate = _state(env, X, [])
        peer = ns.connect_peer(lp, "10.0.0.1", 1000, "OUTGOING")
        peer.waiting_for_inventory = True
        sent: List[Any] = []
        peer.send_message = lambda m, prev_header=None: sent.append((m, prev_header))
        known = [k0, k1, k2][:n]
        # offered ids: known ones are the requester's own blocks (height 0..), unknown ones from Y
        offered = []
        for j, kn in enumerate(known):
            offered.append(X[min(j, r)].hash() if kn else Y[j + 1].hash())
        if len(set(offered)) != len(offered):
            return True
        hdr = ms.MessageHeader(1, 9, 5, 7)
        try:
            peer.handle_inventory_message_received(hdr, ms.InventoryMessage([ms.InventoryItem(ms.DATA_BLOCK, h) for h in offered]))
        except Exception:
            return False
        if twin:
            return n == 0
        if n == 0:
            return len(sent) == 0 and peer.waiting_for_inventory is False
        gd = [m for (m, _) in sent if isinstance(m, ms.GetDataMessage)]
        gb = [m for (m, _) in sent if isinstance(m, ms.GetBlocksMessage)]
        want = [h for h, kn in zip(offered, known) if not (kn and True) and h not in lp.chain_manager.coinstate.block_by_hash]
        if [m.hash for m in gd] != want:
            return False
        for m in gd:
            if m.data_type != ms.DATA_BLOCK:
                return False
        # always continue after the last item, as a reply to the same request chain
        if len(gb) != 1 or gb[0].potential_start_hashes != [offered[-1]]:
            return False
        for (_, ph) in sent:
            if ph is not hdr:
                return False
        return True

    return check_consumption, {"r": 2, "k0": True, "k1": False, "k2": False, "n": 3}


def over_limit(twin: bool = False, real: bool = False):
    env, ns, rpm, ms, mgr = _shell(real)

    def check_over_limit(n: int) -> bool:
        """
        post: _
        """
        if not (499 <= n <= 502):
            return True
        lp = ns.make_node()
        lp.chain_manager.coinstate = _state(env, _chain(env, 1, 1, 1), [])
        peer = ns.connect_peer(lp, "10.0.0.1", 1000, "OUTGOING")
        sent: List[Any] = []
        peer.send_message = lambda m, prev_header=None: sent.append(m)
        items = [ms.InventoryItem(ms.DATA_BLOCK, bytes([0xE0, j % 250, j // 250]) + b"\x00" * 29) for j in range(n)]
        try:
            peer.handle_inventory_message_received(ms.MessageHeader(1, 9, 5, 7), ms.InventoryMessage(items))
            raised = False
        except Exception:
            raised = True
        if twin:
            return raised
        return raised == (n > 500) and (not raised or len(sent) == 0)

    return check_over_limit, {"n": 500}


def step_polls(twin: bool = False, real: bool = False):
    """When to fetch actively: ChainManager.step(t) sends a block locator to an active peer whenever the node should fetch
    (stale head / just started / minute tick), some active peer is past its empty-inventory back-off, and no unexpired
    fetch is in progress - in particular also to a peer whose earlier inventory still lists ids the node already had."""
    env, ns, rpm, ms, mgr = _shell(real)

    def check_step_polls(t: int, head_ts: int, started: int, last_empty: int, fetch_until: int, leftover: bool, waiting: bool) -> bool:
        """
        post: _
        """
        if not (0 <= t < 2 ** 31 and 0 <= head_ts < 2 ** 31 and 0 <= started <= t and 0 <= last_empty <= t and 0 <= fetch_until < 2 ** 31):
            return True
        X = _chain(env, 1, 1, 1)
        X[1].header.summary.timestamp = head_ts
        lp = ns.make_node()
        cm = lp.chain_manager
        cm.coinstate = _state(env, X, [])
        cm.started_at = started
        peer = ns.connect_peer(lp, "10.0.0.1", 1000, "OUTGOING")
        peer.last_empty_inventory_response_at = last_empty
        peer.waiting_for_inventory = waiting
        if leftover:
            # an earlier inventory from this peer listed an id the node already had: it never arrives as data
            st = rpm.InventoryMessageState(ms.MessageHeader(1, 3, 2, 7), ms.InventoryMessage([ms.InventoryItem(ms.DATA_BLOCK, X[1].hash())]))
            st.actually_used = True
            peer.inventory_messages.append(st)
            cm.actively_fetching_blocks_from_peers = [(fetch_until, peer)]
        sent: List[Any] = []
        peer.send_message = lambda m, prev_header=None: sent.append(m)
        try:
            cm.step(t)
        except Exception:
            return False
        if twin:
            return len(sent) == 0
        should = (t > head_ts + 300) or (t <= started + 60) or (t % 60 == 0)
        candidate = t > last_empty + 60
        # a fetch in progress blocks a new one only until its deadline (and only while its batch is unfinished)
        in_progress = leftover and (t < fetch_until)
        got = len([m for m in sent if isinstance(m, ms.GetBlocksMessage)])
        if len(sent) != got or got > 1:
            return False
        if not (should and candidate):
            return got == 0                 # never polls without a reason or inside a peer's back-off
        if not in_progress:
            return got == 1                 # liveness: nothing in progress any more => the peer is asked (again)
        return True                         # while a fetch is in progress the code may or may not start another one

    return check_step_polls, {"t": 10000, "head_ts": 100, "started": 0, "last_empty": 0, "fetch_until": 50, "leftover": True, "waiting": False}


# -- e: two nodes, FIFO ---------------------------------------------------------------------------------


def fifo_sync(twin: bool = False, real: bool = False):
    env, ns, rpm, ms, mgr = _shell(real)
    N = 2

    def check_fifo(a: int, r: int, f: int, stored: bool) -> bool:
        """
        post: _
        """
        if not (1 <= a <= 5 and 0 <= r <= 5 and 0 <= f <= a and f <= r):
            return True
        saved = rpm.GET_BLOCKS_INVENTORY_SIZE
        rpm.GET_BLOCKS_INVENTORY_SIZE = N
        saved_val = (rpm.validate_block_by_itself, rpm.validate_block_in_coinstate)
        try:
            Y = _chain(env, 2, a, a)
            X = _chain(env, 1, r, f, base=Y)
            R = ns.make_node(nonce=1)
            S = ns.make_node(nonce=2)
            R.chain_manager.coinstate = _state(env, X, [])
            S.chain_manager.coinstate = _state(env, Y, X if stored else [])
            R.chain_manager.last_known_valid_coinstate = R.chain_manager.coinstate
            pr = ns.connect_peer(R, "10.0.0.2", 2412, "OUTGOING")        # R's view of S
            ps = ns.connect_peer(S, "10.0.0.1", 1000, "INCOMING")        # S's view of R
            wire: List[Tuple[str, Any, Any]] = []
            data_sent: List[bytes] = []

            def send_from(side: str, peer: Any):
                def send(m: Any, prev_header: Any = None) -> None:
                    peer._next_msg_id += 1
                    hdr = ms.MessageHeader(1, peer._next_msg_id, 0 if prev_header is None else prev_header.id,
                                           7 if prev_header is None else prev_header.context)
                    if isinstance(m, ms.DataMessage):
                        data_sent.append(m.data.hash())
                    wire.append((side, hdr, m))
                return send
            pr.send_message = send_from("R", pr)
            ps.send_message = send_from("S", ps)
            # the requester starts a sync round (what ChainManager.step does when it decides to fetch)
            pr.waiting_for_inventory = True
            pr.send_message(R.chain_manager.get_get_blocks_message())
            steps = 0
            while wire and steps < 200:
                side, hdr, m = wire.pop(0)
                steps += 1
                target = ps if side == "R" else pr
                try:
                    target.handle_message_received(hdr, m)
                except Exception:
                    return False
        finally:
            rpm.GET_BLOCKS_INVENTORY_SIZE = saved
        if twin:
            return not (R.chain_manager.coinstate.head().height > r)
        if steps >= 200:
            return False          # relay/sync traffic must stop
        served = S.chain_manager.coinstate
        active_top = served.head().height
        rc = R.chain_manager.coinstate
        # requester's head has the greater height ...
        if rc.head().height != max(r, active_top):
            return False
        # ... and it stores the complete chain of its head
        idx = rc.block_by_height_by_hash[rc.current_chain_hash]
        for h in range(rc.head().height + 1):
            if h not in idx:
                return False
        # no block data message twice
        for x in data_sent:
            if data_sent.count(x) != 1:
                return False
        # once the two share a head: a valid transaction that spends an output created in a DOWNLOADED block, broadcast by the
        # other node, reaches this node's pool and is passed on exactly once (signature checking is C01/C13's subject: stubbed)
        if rc.current_chain_hash == served.current_chain_hash and rc.head().height > max(f, 0) and a > r:
            top_cb = served.head().transactions[0]
            dt, sg = env.dt, env.sg
            tx = dt.Transaction([dt.Input(dt.OutputReference(top_cb.hash(), 0), sg.SECP256k1Signature(bytes([0x11]) * 64))],
                                [dt.Output(1, sg.SECP256k1PublicKey(bytes([0xC2]) * 64))])
            relayed: List[Any] = []
            R.network_manager.broadcast_transaction = lambda t: relayed.append(t)
            saved_sig = env.cons.validate_signature_for_spend
            env.cons.validate_signature_for_spend = lambda *args, **kw: None
            try:
                for _ in range(2):
                    try:
                        pr.handle_message_received(ms.MessageHeader(1, 900, 0, 7), ms.DataMessage(ms.DATA_TRANSACTION, tx))
                    except Exception:
                        return False
            finally:
                env.cons.validate_signature_for_spend = saved_sig
            pool = R.chain_manager.transaction_pool
            if len(pool) != 1 or pool[0] is not tx or len(relayed) != 1:
                return False
        return True

    return check_fifo, {"a": 4, "r": 2, "f": 1, "stored": False}


def obligations(tier: str, known: List[str]) -> List[Ob]:
    T = 1800 if tier == "thorough" else 900
    obs: List[Ob] = []
    obs.append(Ob("a.locator", C_LOC, "locator", {}, timeout=T))
    thorough = tier == "thorough"
    for sb in (False, True):
        for a in (range(1, 7) if thorough else range(1, 5)):
            obs.append(Ob("b.inventory-service[requester-branch-stored=%s,responder-height=%d]" % (sb, a), C_SRV, "service",
                          {"stored_branch": sb, "a_fixed": a, "rmax": 6 if thorough else 4}, timeout=T))
    obs.append(twin_of(obs[-1], timeout=300))
    obs.append(Ob("c.inventory-consumption", C_INV, "consumption", {}, timeout=T))
    obs.append(twin_of(obs[-1], timeout=300))
    obs.append(Ob("c.over-limit-inventory", C_INV, "over_limit", {}, timeout=T))
    obs.append(Ob("d.when-to-fetch[ChainManager.step]", C_CONV, "step_polls", {}, timeout=T))
    obs.append(Ob("e.two-nodes-fifo", C_CONV + "; " + C_RLY, "fifo_sync", {}, timeout=T))
    obs.append(twin_of(obs[-1], timeout=300))
    return obs


def replay(ob: Ob, model):
    return generic_replay(sys.modules[__name__], ob, model)

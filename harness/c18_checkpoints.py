"""C18 - checkpoints are enforced and the real network's blocks stay valid.

a  gate (solver): for every checkpointed height h (real KNOWN_HASHES, real horizon) an OTHERWISE
   FULLY VALID candidate at height h with a symbolic 32-byte id is accepted by
   validate_block_in_coinstate only if the id equals the table entry - so neither a widened nor a
   narrowed gate comparison nor a skipped table lookup passes; one above the real horizon a block
   with a forged spend is rejected (full validation applies there); MAX_KNOWN_HASH_HEIGHT is the
   largest table key.
b  recorded data (concrete non-solver anchor): genesis and tests/testdata/chain/* keep their ids and
   pass validate_block_by_itself + the in-state validators with the REAL scrypt/blake2/sha256d, also
   while a competing (unvalidated) fork is the served head.
"""
from __future__ import annotations

import os
import sys
import time
from typing import Any, List

from symlib.runner import Ob
from symlib.common import generic_replay, twin_of
from symlib.symblock import World
from symlib.world import tok, TX, BLK

def _repo_root() -> str:
    import os
    return os.environ.get("VERIF_REPO", "/repo").rstrip("/")


META = {
    "explanation": "Gate: validate_block_in_coinstate on an otherwise valid candidate at each checkpointed height with a symbolic id "
                   "(accepted => id == checkpoint); a forged spend one above the horizon is rejected. Anchor: the recorded real blocks "
                   "validated with the unreplaced hash functions (ties the idealised hashes of all other harnesses to the real ones).",
    "technique": "CrossHair symbolic execution of validate_block_in_coinstate per checkpointed height (symbolic id) + concrete anchor run with real scrypt",
    "bounds": "all checkpointed heights (thorough) / 12 of them incl. first, last two (quick); id = any 32 bytes",
    "outside": "part b has no quantifier for a solver: it is a concrete anchor over the 6 recorded blocks",
    "stubs": ["gate: stubs as C01 (the candidate must be valid apart from its id)", "anchor: none (real hashes, real immutables)"],
    "assumptions": [],
}

C_GATE = "below the horizon a block at a checkpointed height is accepted only if its id equals the built-in checkpoint"
C_REAL = "genesis and the recorded real blocks keep their ids and pass full validation with the real proof-of-work functions"


def _table():
    from symlib.prelude import import_repo
    import_repo()
    import skepticoin.cheating as ch
    return dict(ch.KNOWN_HASHES), ch.MAX_KNOWN_HASH_HEIGHT


def gate(h: int, head_above_horizon: bool = False, twin: bool = False, real: bool = False):
    table, mx = _table()
    W = World(real=real, h=max(h, 2))
    # the real gate, not the harness default
    W.cons.MAX_KNOWN_HASH_HEIGHT = mx
    W.cons.KNOWN_HASHES = table
    dt = W.dt
    expected = bytes.fromhex(table[h])

    def check_gate(idb: bytes) -> bool:
        """
        post: _
        """
        if len(idb) != 32:
            return True
        if not real:
            W._install_crypto()
        pre = W.state([5, 6, 7, 8])
        cb = W.env.coinbase(W.h, [dt.Output(1, W.keys[3])], tok(TX, 20))
        block = W.candidate(pre, [cb], 3000, bid=idb)
        if head_above_horizon:
            # the node is fully synced: its served head lies above the last checkpoint
            top = W.env.block(mx + 5, tok(BLK, 60), [W.env.coinbase(mx + 5, [dt.Output(1, W.keys[3])], tok(TX, 61))], tok(BLK, 61))
            pre = W.env.cstate.CoinState(pre.block_by_hash.set(top.hash(), top),
                                         pre.unspent_transaction_outs_by_hash.set(top.hash(), W.env.mk_map([])),
                                         pre.block_by_height_by_hash.set(top.hash(), W.env.mk_map([(mx + 5, top)])),
                                         pre.heads.set(top.hash(), top), top.hash())
        try:
            W.cons.validate_block_in_coinstate(block, pre)
            accepted = True
        except Exception:
            accepted = False
        # the verdict does not depend on how often the block is presented
        for _ in range(2):
            try:
                W.cons.validate_block_in_coinstate(block, pre)
                again = True
            except Exception:
                again = False
            if again != accepted and not twin:
                return False
        if twin:
            return not accepted
        if accepted and idb != expected:
            return False
        # the right id is not refused
        if idb == expected and not accepted:
            return False
        return True

    return check_gate, {"idb": expected}


def genesis_gate(nonempty: bool, twin: bool = False, real: bool = False):
    """Checkpoint 0: a genesis-shaped candidate (all-zero parent id, height 0, valid by itself) with a symbolic id is accepted
    only if the id is the built-in one - on an empty chain state and on one that already holds the real genesis block."""
    table, mx = _table()
    from symlib.world import Env, MAXTARGET, ZERO32
    env = Env(real=real, horizon_off=False)
    env.cons.MAX_KNOWN_HASH_HEIGHT = mx
    env.cons.KNOWN_HASHES = table
    dt = env.dt
    expected = bytes.fromhex(table[0])

    def check_genesis_gate(idb: bytes) -> bool:
        """
        post: _
        """
        if len(idb) != 32:
            return True
        cb = env.coinbase(0, [dt.Output(1_000_000_000, env.sg.SECP256k1PublicKey(bytes([0xC1]) * 64))], tok(TX, 20))
        cand = env.block(0, ZERO32, [cb], idb, ts=1000, merkle=cb.hash())
        cs = env.empty_state()
        if nonempty:
            import skepticoin.genesis as gen
            if real:
                cs = env.cstate.CoinState.zero()
            else:
                g = env.block(0, ZERO32, [env.coinbase(0, [], tok(TX, 21))], expected, ts=999)
                cs = cs.add_block_no_validation(g)
        try:
            env.cons.validate_block_in_coinstate(cand, cs)
            accepted = True
        except Exception:
            accepted = False
        if twin:
            return not accepted
        return (not accepted) or idb == expected

    return check_genesis_gate, {"idb": expected}


def pow_rule(twin: bool = False, real: bool = False):
    """The real network's blocks stay valid whatever difficulty they were mined at: the proof-of-work comparison accepts an id
    exactly when it is below the stated target, for every 32-byte id and target (in particular targets easier than the
    initial one, as in the real chain's first readjustment period, whose checkpointed ids start with 0x01)."""
    from symlib.world import Env
    env = Env(real=real)
    table, mx = _table()
    easy = [bytes.fromhex(v) for (k, v) in sorted(table.items()) if bytes.fromhex(v)[0] >= 1][:3]

    def check_pow_rule(idb: bytes, target: bytes, which: int) -> bool:
        """
        post: _
        """
        if len(idb) != 32 or len(target) != 32 or not (0 <= which <= 3):
            return True
        if which > 0 and len(easy) >= which:
            idb = easy[which - 1]            # a real checkpointed id of the easy-target era
        try:
            env.cons.validate_proof_of_work(idb, target)
            ok = True
        except Exception:
            ok = False
        if twin:
            return not ok
        return ok == (idb < target)

    return check_pow_rule, {"idb": b"\x00" * 31 + b"\x01", "target": b"\x00" * 31 + b"\x02", "which": 0}


def above_horizon(twin: bool = False, real: bool = False):
    """One above the real horizon full validation applies: a spend signed by the wrong key is rejected."""
    table, mx = _table()
    W = World(real=real, h=mx + 1)
    W.cons.MAX_KNOWN_HASH_HEIGHT = mx
    W.cons.KNOWN_HASHES = table
    dt = W.dt

    def check_above(kind: int, v: int) -> bool:
        """
        post: _
        """
        if not (0 <= kind <= 6 and 1 <= v <= 5):
            return True
        if not real:
            W._install_crypto()
        pv = [5, 6, 7, 8]
        pre = W.state(pv)
        cb = W.env.coinbase(W.h, [dt.Output(1, W.keys[3])], tok(TX, 20))
        tx = W.make_tx(tok(TX, 21), [(0, 0, kind)], [(v, 1)], pv, cb.hash(), None)
        block = W.candidate(pre, [cb, tx], 3000)
        try:
            pre.add_block(block, 3000)
            accepted = True
        except Exception:
            accepted = False
        if twin:
            return not accepted
        return accepted == (kind == 0)

    return check_above, {"kind": 0, "v": 3}


def table_shape():
    table, mx = _table()
    ok = (mx == max(table.keys())) and all(len(bytes.fromhex(v)) == 32 for v in table.values()) and 0 in table
    return {"status": "confirmed" if ok else "refuted", "detail": "MAX_KNOWN_HASH_HEIGHT=%d, %d checkpoints" % (mx, len(table)),
            "queries": 1, "model": None if ok else {"max": mx, "largest_key": max(table.keys())},
            "functions": ["skepticoin.cheating:<KNOWN_HASHES, MAX_KNOWN_HASH_HEIGHT>"]}


def recorded_blocks(with_fork_head: bool = False):
    """Concrete anchor with the real hash functions."""
    import importlib
    t0 = time.time()
    from symlib.world import Env
    env = Env(real=True, horizon_off=False)
    import skepticoin.hash as hmod
    importlib.reload(hmod)
    from symlib.stubs.oracles import install_hashes
    install_hashes(hmod.sha256d, hmod.blake2, hmod.scrypt)
    import skepticoin.pow as pw
    importlib.reload(pw)
    cons, dt, cstate = env.cons, env.dt, env.cstate
    cons.select_n_k_length_slices_from_chain = pw.select_n_k_length_slices_from_chain
    import skepticoin.cheating as ch
    import skepticoin.genesis as gen
    problems: List[str] = []
    g = dt.Block.deserialize(gen.genesis_block_data)
    if g.hash().hex() != ch.KNOWN_HASHES[0] or hmod.sha256d(g.header.serialize()).hex() != ch.KNOWN_HASHES[0]:
        problems.append("genesis id != checkpoint 0")
    d = _repo_root() + "/tests/testdata/chain"
    blocks = []
    for fn in sorted(os.listdir(d)):
        b = dt.Block.deserialize(open(os.path.join(d, fn), "rb").read())
        if b.hash().hex() != fn.split("-")[1] or b.height != int(fn.split("-")[0]):
            problems.append("recorded block %s: id/height differ from its file name" % fn)
        if dt.Block.deserialize(b.serialize()).hash() != b.hash():
            problems.append("recorded block %s: id changes across a serialization round trip" % fn)
        blocks.append(b)
    # full validation of every recorded block, checkpoint horizon lowered to genesis so that nothing is skipped
    cons.MAX_KNOWN_HASH_HEIGHT = 0
    cons.KNOWN_HASHES = {0: ch.KNOWN_HASHES[0]}
    cs = cstate.CoinState.zero()
    try:
        cons.validate_block_by_itself(g, g.timestamp)
        cons.validate_block_in_coinstate(g, cstate.CoinState.empty())
    except Exception as e:  # noqa
        problems.append("genesis rejected: %s: %s" % (type(e).__name__, e))
    fork_added = False
    for b in blocks:
        if with_fork_head and b.height == 4 and not fork_added:
            # a competing, never validated branch of two blocks on top of block 3 becomes the served head first
            prev = cs.block_by_height_by_hash[cs.current_chain_hash][3]
            f4 = dt.Block(dt.BlockHeader(dt.BlockSummary(4, prev.hash(), b"\x11" * 32, prev.timestamp + 1, prev.target, 1),
                                         dt.PowEvidence(b"\x00" * 32, b"\x00" * 32, b"\x00" * 32)),
                          [dt.Transaction([dt.Input(dt.OutputReference(b"\x00" * 32, 0), env.sg.CoinbaseData(4, b"fork"))],
                                          [dt.Output(1, blocks[0].transactions[0].outputs[0].public_key)])])
            f5 = dt.Block(dt.BlockHeader(dt.BlockSummary(5, f4.hash(), b"\x12" * 32, prev.timestamp + 2, prev.target, 1),
                                         dt.PowEvidence(b"\x00" * 32, b"\x00" * 32, b"\x00" * 32)),
                          [dt.Transaction([dt.Input(dt.OutputReference(b"\x00" * 32, 0), env.sg.CoinbaseData(5, b"fork"))],
                                          [dt.Output(1, blocks[0].transactions[0].outputs[0].public_key)])])
            cs = cs.add_block_no_validation(f4).add_block_no_validation(f5)
            # ... and the node has worked on that branch (evidence computed for it), as a miner or validator would
            try:
                cons.construct_pow_evidence(cs, f5.header.summary, 5, f5.transactions)
                cons.construct_pow_evidence(cs, f4.header.summary, 4, f4.transactions)
            except Exception:
                pass
            fork_added = True
        try:
            cs = cs.add_block(b, b.timestamp)
        except Exception as e:  # noqa
            problems.append("recorded block %d rejected by full validation%s: %s: %s" % (
                b.height, " (competing fork is head)" if with_fork_head else "", type(e).__name__, e))
            break
    if not problems and not with_fork_head and cs.head().height != len(blocks):
        problems.append("head height %s after the recorded chain" % cs.head().height)
    return {"status": "confirmed" if not problems else "refuted", "detail": "; ".join(problems) or
            "genesis + %d recorded blocks: ids match, full validation with real scrypt/blake2/sha256d passes%s" % (
                len(blocks), " while an unvalidated fork is the head" if with_fork_head else ""),
            "queries": 0, "model": ({"problems": problems, "with_fork_head": with_fork_head} if problems else None),
            "non_solver_anchor": True, "solver_s": 0.0, "wall": time.time() - t0,
            "functions": ["skepticoin.hash:scrypt", "skepticoin.hash:blake2", "skepticoin.hash:sha256d", "skepticoin.consensus:validate_block_by_itself",
                          "skepticoin.consensus:validate_block_in_coinstate", "skepticoin.pow:select_n_k_length_slices_from_chain",
                          "skepticoin.datatypes:Block.deserialize"]}


def obligations(tier: str, known: List[str]) -> List[Ob]:
    table, mx = _table()
    hs = sorted(table.keys())
    if tier != "thorough":
        pick = sorted(set(hs[:3] + hs[-3:] + hs[len(hs) // 4::len(hs) // 6]))
        hs = [h for h in hs if h in pick]
    obs: List[Ob] = []
    for h in hs:
        if h < 2:
            continue        # genesis has no parent to be "otherwise valid" against; its id is pinned by the anchor
        obs.append(Ob("gate[h=%d]" % h, C_GATE, "gate", {"h": h}, timeout=300))
    for h in (hs[-1], hs[len(hs) // 2]) if len(hs) > 1 else hs:
        if h >= 2:
            obs.append(Ob("gate[h=%d,served-head-above-horizon]" % h, C_GATE, "gate", {"h": h, "head_above_horizon": True}, timeout=300))
    obs.append(twin_of([o for o in obs if o.name.startswith("gate[h=%d]" % hs[-1])][0]))
    for ne in (False, True):
        obs.append(Ob("gate[h=0,genesis-shaped candidate,state %s]" % ("holds the real genesis" if ne else "empty"), C_GATE, "genesis_gate",
                      {"nonempty": ne}, timeout=300))
    obs.append(Ob("above-horizon[h=max+1]", C_GATE, "above_horizon", {}, timeout=600))
    obs.append(Ob("proof-of-work-comparison[every id and target]", C_REAL, "pow_rule", {}, timeout=300))
    obs.append(twin_of(obs[-1]))
    obs.append(twin_of(obs[-1]))
    obs.append(Ob("table-shape", C_GATE, "table_shape", {}, kind="anchor"))
    obs.append(Ob("recorded-blocks[real-hashes]", C_REAL, "recorded_blocks", {}, kind="anchor", timeout=600))
    obs.append(Ob("recorded-blocks[real-hashes,fork-is-head]", C_REAL, "recorded_blocks", {"with_fork_head": True}, kind="anchor", timeout=600))
    return obs


def replay(ob: Ob, model):
    if ob.kind == "anchor":
        out = globals()[ob.builder](**ob.params)
        return {"reproduced": out["status"] == "refuted", "detail": out["detail"], "key": None}
    return generic_replay(sys.modules[__name__], ob, model)

"""C11 - stream framing is independent of transport fragmentation.

The real MessageReceiver.receive is fed (a) a fully symbolic stream of length L <= 12 and (b)
structured streams of 2-3 frames (well-formed / wrong magic / over-limit length / truncated) with
symbolic payload, magic and length bytes, under EVERY 2- and 3-way cut (enumerated inside the
harness, contents symbolic). The deliveries, the refusal and the residual receiver state must be
the same as for the unfragmented stream and equal a functional reference parser.
handle_message_data (payload parsing, C07/C20) is replaced by a recorder.
"""
from __future__ import annotations

import sys
from typing import List, Tuple

from symlib.runner import Ob
from symlib.common import generic_replay, twin_of

META = {
    "explanation": "MessageReceiver.receive on symbolic stream contents under all 2-/3-way cuts: deliveries, refusal (wrong magic / "
                   "length > 32 MiB, boundary included) and residual state equal those of the unfragmented run and of a 15-line "
                   "reference parser.",
    "technique": "CrossHair symbolic execution of MessageReceiver.receive; cut positions enumerated concretely, contents symbolic",
    "bounds": "free streams: length <= 14 bytes (quick <= 10); structured: 2-3 frames with payload lengths 0..3; cuts: all 2- and 3-way",
    "outside": "streams longer than the bound, 4+-way cuts (the receiver's state after a chunk depends only on the concatenation so far: "
               "checked as residual-state equality after every prefix)",
    "stubs": ["handle_message_data replaced by a recorder (payload parsing is C07/C20)", "peer object is a dummy"],
    "assumptions": [],
}

C_1 = "messages extracted depend only on the bytes received, not on how they are split into reads"
C_2 = "wrong magic or over-limit length is refused at that point under every fragmentation"

MAX = 32 * 1024 * 1024


def _env():
    from symlib.prelude import import_repo_networking
    import_repo_networking()
    import skepticoin.networking.remote_peer as rp
    return rp


def _run(rp, chunks: List[bytes]):
    """Feed chunks to a fresh real receiver. Returns (deliveries, refusal, state)."""
    rec: List[bytes] = []
    r = rp.MessageReceiver(None)
    r.handle_message_data = lambda data: rec.append(data)
    refusal = None
    for c in chunks:
        try:
            r.receive(c)
        except Exception as e:  # noqa
            refusal = str(e)
            break
    state = None if refusal is not None else (r.buffer, r.magic_read, r.len)
    return rec, refusal, state


def _reference(stream: bytes, MAX: int = MAX):
    """Functional reference: what a stream means, independent of any chunking."""
    rec: List[bytes] = []
    pos = 0
    n = len(stream)
    while True:
        if n - pos < 4:
            return rec, None, (stream[pos:], False, None)
        if stream[pos:pos + 4] != b"MAJI":
            return rec, "Insufficient magic", None
        if n - pos < 8:
            return rec, None, (stream[pos + 4:], True, None)
        ln = int.from_bytes(stream[pos + 4:pos + 8], "big")
        if ln > MAX:
            return rec, "len > MAX_MESSAGE_SIZE", None
        if n - pos - 8 < ln:
            return rec, None, (stream[pos + 8:], True, ln)
        rec.append(stream[pos + 8:pos + 8 + ln])
        pos += 8 + ln


def _same(a, b) -> bool:
    (r1, x1, s1), (r2, x2, s2) = a, b
    if len(r1) != len(r2):
        return False
    for p, q in zip(r1, r2):
        if p != q:
            return False
    if x1 != x2:
        return False
    if (s1 is None) != (s2 is None):
        return False
    if s1 is not None:
        if s1[1] != s2[1] or s1[2] != s2[2] or s1[0] != s2[0]:
            return False
    return True


def _all_cuts_agree(rp, stream: bytes, twin: bool, mx: int = MAX) -> bool:
    L = len(stream)
    whole = _run(rp, [stream])
    ref = _reference(stream, mx)
    if twin:
        return not (len(whole[0]) >= 1)     # twin: a run that delivers a message must be reachable
    if not _same(whole, ref):
        return False
    for c1 in range(0, L + 1):
        for c2 in range(c1, L + 1):
            got = _run(rp, [stream[:c1], stream[c1:c2], stream[c2:]])
            if not _same(got, whole):
                return False
    return True


def free(L: int, limit: int = MAX, twin: bool = False, real: bool = False):
    rp = _env()

    def check_free(b: bytes) -> bool:
        """
        post: _
        """
        if len(b) != L:
            return True
        saved = rp.MAX_MESSAGE_SIZE
        rp.MAX_MESSAGE_SIZE = limit
        try:
            return _all_cuts_agree(rp, b, twin, limit)
        finally:
            rp.MAX_MESSAGE_SIZE = saved

    return check_free, {"b": (b"MAJI\x00\x00\x00\x01Zxyz" + b"q" * L)[:L]}


KINDS = ("ok", "badmagic", "overlimit", "truncated")


def structured(kinds: Tuple[str, ...], plens: Tuple[int, ...], limit: int = MAX, twin: bool = False, real: bool = False):
    """limit: the size limit the receiver runs with. The code is parametric in MAX_MESSAGE_SIZE; with a small value, messages AT
    the limit (and one byte over) lie inside the bound on stream length, together with what follows them in the same read."""
    rp = _env()
    MAXL = limit
    nsym = 0
    for k, p in zip(kinds, plens):
        nsym += p + (1 if k == "badmagic" else 0) + (1 if k == "overlimit" else 0)

    def check_structured(vs: List[int], over: int) -> bool:
        """
        post: _
        """
        if len(vs) != nsym:
            return True
        for v in vs:
            if not (0 <= v <= 255):
                return True
        if not (MAXL < over <= 0xFFFFFFFF):
            return True
        i = 0
        stream = b""
        for k, p in zip(kinds, plens):
            payload = bytes(vs[i:i + p])
            i += p
            if k == "ok":
                stream += b"MAJI" + p.to_bytes(4, "big") + payload
            elif k == "badmagic":
                m = vs[i]
                i += 1
                if m == ord("J"):
                    return True
                stream += b"MA" + bytes([m]) + b"I" + p.to_bytes(4, "big") + payload
            elif k == "overlimit":
                i += 1
                stream += b"MAJI" + bytes([(over >> 24) & 0xFF, (over >> 16) & 0xFF, (over >> 8) & 0xFF, over & 0xFF]) + payload
            else:  # truncated: announces one byte more than is present
                stream += b"MAJI" + (p + 1).to_bytes(4, "big") + payload
        saved = rp.MAX_MESSAGE_SIZE
        rp.MAX_MESSAGE_SIZE = MAXL
        try:
            return _all_cuts_agree(rp, stream, twin, MAXL)
        finally:
            rp.MAX_MESSAGE_SIZE = saved

    return check_structured, {"vs": [7] * nsym, "over": MAXL + 1}


def boundary(twin: bool = False, real: bool = False):
    """The size limit itself: a length field of exactly MAX is accepted (waits for data), MAX+1 is refused."""
    rp = _env()

    def check_boundary(ln: int, c: int) -> bool:
        """
        post: _
        """
        if not (0 <= ln <= 0xFFFFFFFF and 0 <= c <= 8):
            return True
        stream = b"MAJI" + bytes([(ln >> 24) & 0xFF, (ln >> 16) & 0xFF, (ln >> 8) & 0xFF, ln & 0xFF])
        got = _run(rp, [stream[:c], stream[c:]])
        if twin:
            return got[1] is None
        if ln > MAX:
            return got[1] == "len > MAX_MESSAGE_SIZE" and got[0] == []
        if ln == 0:
            return got[1] is None and got[0] == [b""]
        return got[1] is None and got[0] == [] and got[2][2] == ln

    return check_boundary, {"ln": MAX, "c": 4}


def obligations(tier: str, known: List[str]) -> List[Ob]:
    thorough = tier == "thorough"
    obs: List[Ob] = []
    for L in range(0, (15 if thorough else 11)):
        obs.append(Ob("free[len=%d]" % L, C_1 + "; " + C_2, "free", {"L": L}, timeout=600 if thorough else 240))
    obs.append(twin_of(obs[9]))
    for L in ((9, 10, 11, 12, 13) if thorough else (10, 11)):
        obs.append(Ob("free[len=%d,limit=2]" % L, C_1 + "; " + C_2, "free", {"L": L, "limit": 2}, timeout=600 if thorough else 240))
    obs.append(Ob("limit-boundary", C_2, "boundary", {}, timeout=120))
    obs.append(twin_of(obs[-1]))
    shapes: List[Tuple[Tuple[str, ...], Tuple[int, ...]]] = []
    two = [("ok", "ok"), ("ok", "badmagic"), ("ok", "overlimit"), ("ok", "truncated"), ("badmagic", "ok"), ("overlimit", "ok")]
    for ks in two:
        for pl in ([(0, 0), (1, 2), (3, 0), (2, 3)] if thorough else [(0, 1), (2, 0)]):
            shapes.append((ks, pl))
    three = [("ok", "ok", "ok"), ("ok", "ok", "badmagic"), ("ok", "ok", "overlimit"), ("ok", "ok", "truncated")]
    for ks in three:
        for pl in ([(0, 1, 2), (3, 0, 1), (1, 1, 1)] if thorough else [(1, 0, 2)]):
            shapes.append((ks, pl))
    for ks, pl in shapes:
        obs.append(Ob("frames[%s;payload=%s]" % ("+".join(ks), ",".join(map(str, pl))), C_1 + "; " + C_2, "structured",
                      {"kinds": ks, "plens": pl}, timeout=600 if thorough else 240))
    obs.append(twin_of(obs[-1]))
    # messages exactly at the size limit followed by more data in the same read (limit patched to 3 bytes)
    small = [(("ok", "ok"), (3, 1)), (("ok", "ok"), (3, 3)), (("ok", "overlimit"), (3, 0)), (("ok", "ok", "ok"), (2, 3, 0)),
             (("ok", "truncated"), (3, 2)), (("ok", "badmagic"), (3, 1))]
    for ks, pl in small:
        obs.append(Ob("frames-at-the-limit[limit=3;%s;payload=%s]" % ("+".join(ks), ",".join(map(str, pl))), C_1 + "; " + C_2, "structured",
                      {"kinds": ks, "plens": pl, "limit": 3}, timeout=600 if thorough else 240))
    return obs


def replay(ob: Ob, model):
    return generic_replay(sys.modules[__name__], ob, model)

"""C04 - fork choice: the head is the first-seen block of greatest total work (= height).

a. inductive step: CoinState.add_block_no_validation from an abstract pre-state whose heights are
   symbolic integers (parent P, current head C, bystander tip B; P may be C, may or may not be a
   tip), invariant Inv: head height >= every stored height. Specification of the step:
   head' = N iff P is C or height(N) > height(C), else C; tips' = tips - {P} + {N};
   index(N) = index(P) + {height(N) -> N}; every other entry of every map is the identical object.
b. bounded histories: every parent vector for up to 6 (quick 5) blocks as symbolic integers through
   the real function; after every prefix head / tips / by-height index / forks() equal an
   independent reference (earliest arrival among maximal height, childless blocks, ancestors,
   last common ancestor with the main chain).
"""
from __future__ import annotations

import sys
from typing import Any, Dict, List, Optional, Tuple

from symlib.runner import Ob
from symlib.common import generic_replay, twin_of
from symlib.world import Env, tok, BLK, TX, ZERO32

META = {
    "explanation": "One real add_block_no_validation step from an arbitrary abstract pre-state with symbolic heights (inductive "
                   "argument for 'first-seen among greatest height, never switches between equal tips'), plus all block trees of "
                   "<= 6 blocks compared with a reference after every arrival (head, tips, by-height index, forks()).",
    "technique": "CrossHair symbolic execution of CoinState.add_block_no_validation / forks() (symbolic heights; symbolic parent vector)",
    "bounds": "step: 3 stored blocks + ancestors entries, heights any encodable value 0..2^32-1; histories: <= 7 blocks (quick 5)",
    "outside": "trees larger than the bound are covered only through the step lemma; total work is this version's placeholder (height)",
    "stubs": ["PyMap for immutables.Map", "block/transaction ids are preset tokens"],
    "assumptions": ["a block's stated height is its parent's + 1 (C05 guarantees it above the checkpoint horizon)",
                    "Inv: the current head has the greatest height among stored blocks and is the earliest such arrival"],
}

C_HEAD = "head = earliest-arrived block among those of greatest height; never switches between equal tips"
C_TIPS = "reported tips = exactly the stored blocks without stored children"
C_IDX = "by-height index at every block = exactly that block's ancestors and itself"


def step(p_is_c: bool, p_in_heads: bool, twin: bool = False, real: bool = False):
    env = Env(real=real)
    M = env.Map

    def check_step(hp: int, hc: int, hb: int, tsel: int = 0) -> bool:
        """
        post: _
        """
        # encodable heights (CoinbaseData.height is a 4-byte field; beyond it the constructor formats the value into an error text)
        if not (0 <= hp < 0xFFFFFFFF and 0 <= hc <= 0xFFFFFFFF and 0 <= hb <= 0xFFFFFFFF):
            return True
        if p_is_c and hp != hc:
            return True
        if not (0 <= tsel <= 15):
            return True
        # Inv: the head has the greatest height
        if not (hc >= hp and hc >= hb):
            return True
        # a parent that is still a tip of a non-head branch; a parent that is not a tip has a child (height hp+1 <= hc)
        if not p_is_c and not p_in_heads and not (hp + 1 <= hc):
            return True
        # Block ids are concrete tokens. The real map type iterates in an order that depends on the ids' hash values, so the
        # replay (real mode) tries several id assignments: a violation for the model's heights under any of them is real.
        for variant in (range(8) if real else range(1)):
            if not _one(hp, hc, hb, variant, tsel):
                return False
        return True

    def _one(hp: int, hc: int, hb: int, variant: int, tsel: int) -> bool:
        o = 16 * variant
        cb = env.coinbase(0, [], tok(TX, 1))
        A = env.block(hp - 1 if hp > 0 else 0, ZERO32, [cb], tok(BLK, 9 + o))           # an ancestor entry of P's index
        # stated targets differ between the blocks (as they do across a retarget): total work is the height all the same
        EASY, HARD = b"\xff" * 32, b"\x00" * 4 + b"\xff" * 28
        P = env.block(hp, tok(BLK, 9 + o), [cb], tok(BLK, 1 + o), target=HARD if tsel & 1 else EASY)
        C = P if p_is_c else env.block(hc, tok(BLK, 8 + o), [cb], tok(BLK, (2 + o) if variant % 2 == 0 else (5 + o)),
                                       target=HARD if tsel & 2 else EASY)
        B = env.block(hb, tok(BLK, 7 + o), [cb], tok(BLK, (3 + o) if variant % 2 == 0 else (0 + o)), target=HARD if tsel & 4 else EASY)
        idxP = env.mk_map([(hp, P)]) if hp == 0 else env.mk_map([(hp - 1, A), (hp, P)])
        idxC = idxP if p_is_c else env.mk_map([(hc, C)])
        idxB = env.mk_map([(hb, B)])
        uP, uC, uB = M(), M(), M()
        bbh = {P.hash(): P, B.hash(): B}
        utx = {P.hash(): uP, B.hash(): uB}
        bhh = {P.hash(): idxP, B.hash(): idxB}
        heads = {B.hash(): B}
        if not p_is_c:
            bbh[C.hash()] = C
            utx[C.hash()] = uC
            bhh[C.hash()] = idxC
            heads[C.hash()] = C
            if p_in_heads:
                heads[P.hash()] = P
        else:
            heads[P.hash()] = P       # the current head is always a tip
        pre = env.state(bbh, utx, bhh, heads, C.hash())
        pre_items = {n: list(getattr(pre, n).items()) for n in
                     ("block_by_hash", "unspent_transaction_outs_by_hash", "block_by_height_by_hash", "heads")}
        N = env.block(hp + 1, P.hash(), [env.coinbase(hp + 1, [], tok(TX, 2))], tok(BLK, 4 + o), target=HARD if tsel & 8 else EASY)
        post = pre.add_block_no_validation(N)
        if twin:
            return False
        # head
        expect_head = N.hash() if (p_is_c or hp + 1 > hc) else C.hash()
        if post.current_chain_hash != expect_head:
            return False
        # tips
        exp_tips = [k for (k, _) in pre_items["heads"] if k != P.hash()] + [N.hash()]
        got_tips = list(post.heads.keys())
        if len(got_tips) != len(exp_tips):
            return False
        for k in exp_tips:
            if k not in post.heads:
                return False
        if post.heads[N.hash()] is not N:
            return False
        # index of the new block = parent's index + own entry; nothing else
        idxN = post.block_by_height_by_hash[N.hash()]
        exp_idx = list(idxP.items()) + [(hp + 1, N)]
        if len(idxN) != len(exp_idx):
            return False
        for (h, b) in exp_idx:
            if h not in idxN or idxN[h] is not b:
                return False
        # new block stored, its ledger entry present
        if post.block_by_hash[N.hash()] is not N or N.hash() not in post.unspent_transaction_outs_by_hash:
            return False
        # frame: every pre-existing entry of every map is the identical object; the old state is untouched
        for n in ("block_by_hash", "unspent_transaction_outs_by_hash", "block_by_height_by_hash"):
            m = getattr(post, n)
            if len(m) != len(pre_items[n]) + 1:
                return False
            for (k, v) in pre_items[n]:
                if m[k] is not v:
                    return False
            now = list(getattr(pre, n).items())
            if len(now) != len(pre_items[n]):
                return False
            for (k1, v1), (k2, v2) in zip(now, pre_items[n]):
                if k1 != k2 or v1 is not v2:
                    return False
        if len(list(pre.heads.items())) != len(pre_items["heads"]) or pre.current_chain_hash != C.hash():
            return False
        return True

    return check_step, {"hp": 3, "hc": 3 if p_is_c else 5, "hb": 2, "tsel": 0}


# -- bounded histories ---------------------------------------------------------------------------


def _reference(parents: List[int]) -> Tuple[int, List[int], Dict[int, List[int]]]:
    """parents[i] = index of the parent of block i (block 0 = root, parents[0] = -1), arrival order = index.
    Returns (head, tips, ancestors-including-self per block ordered by height)."""
    n = len(parents)
    height = [0] * n
    for i in range(1, n):
        height[i] = height[parents[i]] + 1
    best = max(height)
    head = min(i for i in range(n) if height[i] == best)
    tips = [i for i in range(n) if i not in parents[1:]]
    anc: Dict[int, List[int]] = {}
    for i in range(n):
        chain = [i]
        while parents[chain[-1]] >= 0:
            chain.append(parents[chain[-1]])
        anc[i] = list(reversed(chain))
    return head, tips, anc


def histories(n: int, fix: Optional[Tuple[int, int]] = None, twin: bool = False, real: bool = False):
    """fix: (p2, p3) pinned - case split that spreads the 7-block trees over the cores."""
    env = Env(real=real)

    def check_histories(p2: int, p3: int, p4: int, p5: int, p6: int = 0) -> bool:
        """
        post: _
        """
        if fix is not None and (p2, p3) != tuple(fix):
            return True
        pv = [p2, p3, p4, p5, p6][:max(0, n - 2)]
        for u in [p2, p3, p4, p5, p6][max(0, n - 2):]:
            if u != 0:
                return True
        parents = [-1, 0]
        for i, p in enumerate(pv):
            if not (0 <= p <= i + 1):
                return True
            parents.append(p)
        parents = parents[:n]
        blocks: List[Any] = []
        cs = env.empty_state()
        height: List[int] = []
        for i in range(n):
            h = 0 if i == 0 else height[parents[i]] + 1
            height.append(h)
            prev = ZERO32 if i == 0 else blocks[parents[i]].hash()
            b = env.block(h, prev, [env.coinbase(h, [], tok(TX, i))], tok(BLK, i))
            blocks.append(b)
            cs = cs.add_block_no_validation(b)
            head, tips, anc = _reference(parents[:i + 1])
            if cs.current_chain_hash != blocks[head].hash():
                return False
            if sorted(cs.heads.keys()) != sorted(blocks[t].hash() for t in tips):
                return False
            for j in range(i + 1):
                idx = cs.block_by_height_by_hash[blocks[j].hash()]
                if len(idx) != len(anc[j]):
                    return False
                for hh, a in enumerate(anc[j]):
                    if idx[hh] is not blocks[a]:
                        return False
            # forks(): every tip with its last common ancestor with the main chain
            fk = cs.forks()
            if len(fk) != len(tips):
                return False
            main = anc[head]
            for (tipb, lca) in fk:
                t = [k for k in range(i + 1) if blocks[k] is tipb]
                if len(t) != 1 or t[0] not in tips:
                    return False
                common = [a for a in anc[t[0]] if a in main]
                if lca is not blocks[common[-1]]:
                    return False
        if twin:
            return False
        return True

    return check_histories, {"p2": fix[0] if fix else 0, "p3": fix[1] if fix else 0, "p4": 0, "p5": 0, "p6": 0}


def long_chain(L: int, lo: int = 0, hi: int = 10 ** 9, twin: bool = False, real: bool = False):
    """"Any earlier block as parent" must not depend on how deep that block is buried: a linear chain of L blocks, then a block
    on a parent at a symbolic height and a child of that block. Every stored block keeps its by-height index and its
    unspent-output entry whatever its depth."""
    env = Env(real=real)

    def wide(kind: int, n: int) -> bytes:
        return bytes([kind]) + n.to_bytes(2, "big") + bytes([0xA5]) * 29        # tok() distinguishes 256 values only

    def check_long_chain(p: int) -> bool:
        """
        post: _
        """
        if not (0 <= p <= L - 3 and lo <= p < hi):
            return True
        blocks: List[Any] = []
        cs = env.empty_state()
        for i in range(L):
            prev = ZERO32 if i == 0 else blocks[i - 1].hash()
            b = env.block(i, prev, [env.coinbase(i, [], wide(TX, i))], wide(BLK, i))
            blocks.append(b)
            cs = cs.add_block_no_validation(b)
        par = blocks[p]
        try:
            f1 = env.block(p + 1, par.hash(), [env.coinbase(p + 1, [], wide(TX, 60000))], tok(0xB7, 1))
            cs = cs.add_block_no_validation(f1)
            f2 = env.block(p + 2, f1.hash(), [env.coinbase(p + 2, [], wide(TX, 60001))], tok(0xB7, 2))
            cs = cs.add_block_no_validation(f2)
        except Exception:
            return False
        if twin:
            return False
        if cs.current_chain_hash != blocks[L - 1].hash():
            return False         # p + 2 <= L - 1: the fork never overtakes
        if sorted(cs.heads.keys()) != sorted([blocks[L - 1].hash(), f2.hash()]):
            return False
        i2 = cs.block_by_height_by_hash[f2.hash()]
        if len(i2) != p + 3 or i2[p + 2] is not f2 or i2[p + 1] is not f1 or i2[p] is not par or i2[0] is not blocks[0]:
            return False
        for j, b in enumerate(blocks):
            if b.hash() not in cs.block_by_height_by_hash or b.hash() not in cs.unspent_transaction_outs_by_hash:
                return False
            if len(cs.block_by_height_by_hash[b.hash()]) != j + 1:
                return False
        return True

    return check_long_chain, {"p": max(3, lo)}


def obligations(tier: str, known: List[str]) -> List[Ob]:
    obs: List[Ob] = []
    for p_is_c, p_in_heads in ((True, True), (False, True), (False, False)):
        obs.append(Ob("step[P-is-head=%s,P-is-tip=%s]" % (p_is_c, p_in_heads), C_HEAD + "; " + C_TIPS + "; " + C_IDX, "step",
                      {"p_is_c": p_is_c, "p_in_heads": p_in_heads}, timeout=300))
    obs.append(twin_of(obs[1]))
    for n in ((2, 3, 4, 5, 6) if tier == "thorough" else (2, 3, 4, 5)):
        obs.append(Ob("histories[blocks=%d]" % n, C_HEAD + "; " + C_TIPS + "; " + C_IDX, "histories", {"n": n},
                      timeout=900 if tier == "thorough" else 300))
    if tier == "thorough":
        for p2 in (0, 1):
            for p3 in (0, 1, 2):
                obs.append(Ob("histories[blocks=7,p2=%d,p3=%d]" % (p2, p3), C_HEAD + "; " + C_TIPS + "; " + C_IDX, "histories",
                              {"n": 7, "fix": (p2, p3)}, timeout=2400))
    obs.append(twin_of(obs[-1]))
    return obs + _long_obs(tier)


def _long_obs(tier: str) -> List[Ob]:
    L = 260 if tier == "thorough" else 130
    out = []
    step = 16 if tier != "thorough" else 20
    for lo in range(0, L - 2, step):
        out.append(Ob("deep-parent[chain=%d,parent height in %d..%d]" % (L, lo, min(lo + step, L - 2) - 1), C_IDX + "; " + C_TIPS, "long_chain",
                      {"L": L, "lo": lo, "hi": lo + step}, timeout=1500 if tier == "thorough" else 600))
    return out


def replay(ob: Ob, model):
    return generic_replay(sys.modules[__name__], ob, model)

"""C09 - relay path: only fully valid blocks enter state; rejected ones leave no trace.

The real ConnectedRemotePeer.handle_block_received (header.in_response_to = 0) runs on a node shell
whose DefaultBlockStore is the repository's BlockStore on the relational sqlite stand-in, from an
invariant state Inv: served state = SymBlock world (R, P, F), last validated state = served state,
store rows = blocks of the served state, write buffer empty, pool = one valid pending transaction.
Case split: the kind of delivered block (valid on the head / valid on an older block / duplicate /
orphan / each by-itself defect / each in-state defect / the apply-error class); symbolic inside:
clocks, timestamps, values, reward. After the delivery a second delivery of the same block, then a
valid follow-up block. Oracle: accepted iff the kind is valid; accepted => in state, flushed to
the store, relayed exactly once iff it became the head, the repeat changes nothing; rejected => the
served state is the identical object, store rows / write buffer / pool as before; in every case
the follow-up block is accepted AND stored.
"""
from __future__ import annotations

import sys
from typing import Any, List, Optional

from symlib.runner import Ob
from symlib.common import generic_replay, twin_of
from symlib.symblock import World, MAX_FUTURE
from symlib.world import tok, TX, BLK, ZERO32

META = {
    "explanation": "handle_block_received + ChainManager.set_coinstate + DiskInterface.save_block/flush_blocks + BlockStore buffer/flush "
                   "executed for one delivery of each kind of block the validator distinguishes, a repeat, and a valid follow-up.",
    "technique": "CrossHair symbolic execution of the relay handler on a node shell with the real BlockStore on a relational sqlite stand-in",
    "bounds": "one delivery + repeat + one follow-up from an invariant state; 13 kinds of delivered block, each also conflicting with the pending transaction; blocks of <= 2 transactions",
    "outside": "bulk download (in_response_to != 0) is outside the property; sequences longer than delivery/repeat/follow-up rely on Inv being re-established",
    "stubs": ["node shell", "relational stand-in for sqlite3", "stubs as C01", "LRO ids preset so that stored transaction ids equal the cached ones"],
    "assumptions": ["Inv in the pre-state", "clock = validator's int(time())"],
}

C_IN = "a delivered block becomes part of chain state only if it passes full validation; then it is stored and, if it is the new head, relayed exactly once; a repeat has no effect"
C_OUT = "a rejected block (unknown parent, structural defect, rule violation, error while applying) never appears in state or store, leaves the pool as it was"
C_LATER = "and does not impair the storing of later blocks"

KINDS = ["valid-on-head", "valid-on-older-block", "duplicate", "orphan", "bad-merkle", "future-timestamp", "reward-height-mismatch",
         "wrong-signature", "reward-too-high", "timestamp-not-after-parent", "apply-error-missing-output", "wrong-evidence",
         "stated-height-without-ancestors", "wrong-signature-on-side-branch", "orphan-until-its-parent-arrives",
         "altered-body-under-a-genuine-header"]


def _rows(store) -> List[bytes]:
    return [r[0] for r in store.sql("select block_hash from chain")]


def delivery(kind: int, conflict: bool = False, served_head: str = "P", twin: bool = False, real: bool = False):
    """conflict: the delivered block's spend uses the same output as the pending transaction in the pool.
    served_head: "F" = the sibling fork is the served head when the block (built on P) arrives."""
    W = World(real=real, networking=True, served_head=served_head, lro=True)
    from symlib import nodeshell as ns
    dt, cons = W.dt, W.cons
    import skepticoin.blockstore as bs
    import skepticoin.networking.messages as ms
    import skepticoin.networking.disk_interface as di
    import skepticoin.networking.remote_peer as rpm

    def new_store():
        if real:
            import tempfile
            import os
            from symlib.stubs import relstore
            relstore.uninstall()
            d = tempfile.mkdtemp(prefix="c09-")
            return bs.BlockStore(os.path.join(d, "chain.db")), d
        from symlib.stubs import relstore
        fake = relstore.install()
        return bs.BlockStore("chain.db"), None

    def check_delivery(now: int, ts: int, pts: int, v0: int, ov: int, reward: int, ts2: int) -> bool:
        """
        post: _
        """
        if not (1000 < pts < 2 ** 31 and 0 <= now < 2 ** 31 and 0 <= ts < 2 ** 31 and 0 <= ts2 < 2 ** 31):
            return True
        if not (2 <= v0 <= 10 ** 15 and 0 <= ov <= 10 ** 15 and 0 <= reward <= 3 * 10 ** 9):
            return True
        # the follow-up block is valid: its time is fine
        if not (pts < ts2 <= now + MAX_FUTURE):
            return True
        name = KINDS[kind]
        good_time = pts < ts <= now + MAX_FUTURE
        good_values = 0 < ov <= v0 and reward <= 10 ** 9 + (v0 - ov)
        if name == "future-timestamp":
            if not (ts > now + MAX_FUTURE and good_values):
                return True
        elif name == "timestamp-not-after-parent":
            if not (ts <= pts and ts <= now + MAX_FUTURE and good_values):
                return True
        elif name == "reward-too-high":
            if not (good_time and 0 < ov <= v0 and reward > 10 ** 9 + (v0 - ov)):
                return True
        else:
            if not (good_time and good_values):
                return True
        if not real:
            W._install_crypto()
        pv = [v0, 6, v0, 8]
        state = W.state(pv, pts=pts)
        if not real:
            # stored transaction ids (hash of the encoding) must equal the ids the objects carry
            for b in (W.R, W.P, W.F):
                for t in b.transactions:
                    W.sha256d.preset((t.serialize(),), t.hash())
        store, tmpdir = new_store()
        saved_inst = bs.DefaultBlockStore.instance
        bs.DefaultBlockStore.instance = store
        saved_time = rpm.time
        try:
            store.write_blocks_to_disk([W.R, W.P, W.F])
            clk = [now]
            lp = ns.make_node(disk=di.DiskInterface(), clock=lambda: clk[0])
            cm = lp.chain_manager
            # the node's history: an earlier validated state (same blocks, the other tip as head), then the current state
            # published the way the miner and start-up publish it - through set_coinstate's default arguments
            base = W.env.cstate.CoinState(state.block_by_hash, state.unspent_transaction_outs_by_hash, state.block_by_height_by_hash,
                                          state.heads, (W.F if served_head == "P" else W.P).hash())
            cm.coinstate = base
            cm.last_known_valid_coinstate = base
            cm.set_coinstate(state)
            pending = W.make_tx(tok(TX, 41), [(2, 0, 0)], [(1, 2)], pv, tok(TX, 99), None)      # valid at the head: 1 <= v0 (Inv)
            cm.transaction_pool = [pending]
            sent: List[Any] = []
            lp.network_manager.broadcast_block = lambda b: sent.append(b)
            published: List[Any] = []
            real_set = cm.set_coinstate

            def recording_set(cs, validated=True):
                published.append(cs)
                return real_set(cs, validated=validated)
            cm.set_coinstate = recording_set
            peer = ns.connect_peer(lp, "10.0.0.1", 1000, "INCOMING")
            other = ns.connect_peer(lp, "10.0.0.2", 1000, "INCOMING")
            hdr = ms.MessageHeader(1, 1, 0, 7)
            # -- the delivered block ----------------------------------------------------------------
            cb = W.env.coinbase(W.h, [dt.Output(reward, W.keys[3])], None, data=b"n")
            src = 2 if conflict else 0        # (T11,0) is what the pending transaction spends; (T10,0) is unrelated
            spend = W.make_tx(None, [(src, 0, 1 if name == "wrong-signature" else 0)], [(ov, 1)], pv, tok(TX, 99), None)
            txs = [cb, spend]
            becomes_head = True
            if name == "valid-on-older-block":
                cb1 = W.env.coinbase(W.h - 1, [dt.Output(5, W.keys[3])], None, data=b"o")
                blk = W.candidate(state, [cb1], ts, parent=W.R, height=W.h - 1, bid=tok(BLK, 6))
                becomes_head = False
            elif name == "duplicate":
                blk = W.P
            elif name == "orphan":
                ghost = W.env.block(W.h - 1, tok(BLK, 77), [cb], tok(BLK, 78))
                blk = W.env.block(W.h, ghost.hash(), txs, tok(BLK, 6), ts=ts, merkle=W.ref_merkle([t.hash() for t in txs]))
            elif name == "orphan-until-its-parent-arrives":
                # child of a valid block the node has not seen yet: refused now, acceptable once the parent has arrived
                cbm = W.env.coinbase(W.h, [dt.Output(1, W.keys[3])], None, data=b"m")
                mid = W.candidate(state, [cbm], ts, bid=tok(BLK, 11), nonce=5)
                st_mid = state.add_block_no_validation(mid)
                cbc = W.env.coinbase(W.h + 1, [dt.Output(1, W.keys[3])], None, data=b"c")
                saved_h = W.h
                W.h = saved_h + 1
                try:
                    blk = W.candidate(st_mid, [cbc], ts2 if ts2 > ts else ts + 1, parent=mid, height=saved_h + 1, bid=tok(BLK, 6))
                finally:
                    W.h = saved_h
                if not real:
                    for t in (cbm, cbc):
                        W.sha256d.preset((t.serialize(),), t.hash())
            elif name == "altered-body-under-a-genuine-header":
                # the header (and so the id) of a genuine block, with one output value of its spend changed
                genuine = W.candidate(state, txs, ts, bid=tok(BLK, 6))
                spend2 = W.make_tx(None, [(src, 0, 0)], [(ov + 1, 1)], pv, tok(TX, 99), None)
                blk = dt.Block(genuine.header, [cb, spend2], hash=tok(BLK, 6))
                if not real:
                    for t in genuine.transactions:
                        W.sha256d.preset((t.serialize(),), t.hash())
            elif name == "bad-merkle":
                blk = W.candidate(state, txs, ts, merkle=tok(0x3E, 9), bid=tok(BLK, 6))
            elif name == "reward-height-mismatch":
                cbx = W.env.coinbase(W.h + 1, [dt.Output(reward, W.keys[3])], None, data=b"n")
                blk = W.candidate(state, [cbx, spend], ts, bid=tok(BLK, 6))
            elif name == "apply-error-missing-output":
                miss = W.make_tx(None, [(6, 0, 0)], [(1, 1)], pv, tok(TX, 99), None)       # never-existed output
                blk = W.candidate(state, [cb, miss], ts, bid=tok(BLK, 6))
            elif name == "stated-height-without-ancestors":
                # claims a height for which its chain has no ancestors to sample: the evidence cannot even be recomputed
                cbh = W.env.coinbase(W.h + 5, [dt.Output(reward, W.keys[3])], None, data=b"n")
                summ = dt.BlockSummary(W.h + 5, W.P.hash(), W.ref_merkle([cbh.hash(), spend.hash()]), ts, b"\xff" * 32, 0)
                blk = W.candidate(state, [cbh, spend], ts, height=W.h + 5, bid=tok(BLK, 6),
                                  evidence=W.ref_evidence(summ, W.h, W.P, state, [cbh, spend]))
            elif name == "wrong-evidence":
                good = W.candidate(state, txs, ts, bid=tok(BLK, 6))
                ev = good.header.pow_evidence
                blk = W.candidate(state, txs, ts, bid=tok(BLK, 6), evidence=dt.PowEvidence(ev.summary_hash, ev.chain_sample, tok(0x08, 99)))
            else:
                blk = W.candidate(state, txs, ts, bid=tok(BLK, 6))
            if not real and blk is not W.P:
                for t in blk.transactions:
                    W.sha256d.preset((t.serialize(),), t.hash())
            if name == "wrong-signature-on-side-branch":
                # the node's head is already one block further (a sibling of the delivered block): the delivered block is above
                # the checkpoint horizon but would not become the head
                cbh = W.env.coinbase(W.h, [dt.Output(1, W.keys[3])], None, data=b"h")
                head1 = W.candidate(state, [cbh], pts + 1 if pts + 1 <= now + MAX_FUTURE else pts, bid=tok(BLK, 10), nonce=9)
                if not real:
                    W.sha256d.preset((cbh.serialize(),), cbh.hash())
                try:
                    state = state.add_block(head1, now)
                except Exception:
                    return True
                cm.coinstate = state
                cm.last_known_valid_coinstate = state
                store.write_blocks_to_disk([head1])
                spend_bad = W.make_tx(None, [(src, 0, 1)], [(ov, 1)], pv, tok(TX, 99), None)
                blk = W.candidate(state, [cb, spend_bad], ts, bid=tok(BLK, 6))
                if not real:
                    for t in blk.transactions:
                        W.sha256d.preset((t.serialize(),), t.hash())
            should_accept = name in ("valid-on-head", "valid-on-older-block")
            rows0 = _rows(store)
            pool0 = list(cm.transaction_pool)
            # -- first delivery --------------------------------------------------------------------------
            try:
                peer.handle_block_received(hdr, ms.DataMessage(ms.DATA_BLOCK, blk))
            except Exception:
                pass        # the catch-all of the event loop disconnects this peer; the node's state is what matters
            if twin:
                reached_in = blk.hash() in cm.coinstate.block_by_hash and name != "duplicate"
                return (not reached_in) if should_accept else reached_in      # the expected outcome must be reachable
            in_state = blk.hash() in cm.coinstate.block_by_hash
            if name == "duplicate":
                if cm.coinstate is not state or sent or _rows(store) != rows0 or len(store.write_buffer) != 0:
                    return False
            elif should_accept:
                if not in_state or blk.hash() not in _rows(store) or len(store.write_buffer) != 0:
                    return False
                if becomes_head != (cm.coinstate.current_chain_hash == blk.hash()):
                    return False
                if len(sent) != (1 if becomes_head else 0) or (sent and sent[0] is not blk):
                    return False
                if cm.last_known_valid_coinstate is not cm.coinstate:
                    return False
            else:
                if in_state or cm.coinstate is not state:
                    return False
                if _rows(store) != rows0 or len(store.write_buffer) != 0 or sent:
                    return False
            # pool: the pending transaction is evicted only by an ACCEPTED block that spends its input
            if should_accept and conflict and name == "valid-on-head":
                if len(cm.transaction_pool) != 0:
                    return False
            elif len(cm.transaction_pool) != len(pool0) or cm.transaction_pool[0] is not pool0[0]:
                return False
            # a block that ends up rejected was never part of a chain state handed to the rest of the node
            if not should_accept and name != "duplicate":
                for cs in published:
                    if blk.hash() in cs.block_by_hash:
                        return False
            # -- repeat of the same delivery ---------------------------------------------------------------
            st1, rows1, nsent = cm.coinstate, _rows(store), len(sent)
            try:
                peer.handle_block_received(hdr, ms.DataMessage(ms.DATA_BLOCK, blk))
            except Exception:
                pass
            if cm.coinstate is not st1 or _rows(store) != rows1 or len(sent) != nsent or len(store.write_buffer) != 0:
                return False
            # -- a refusal for a reason that has gone away is not remembered ------------------------------------------
            if name in ("future-timestamp", "orphan-until-its-parent-arrives", "altered-body-under-a-genuine-header"):
                if name == "future-timestamp":
                    clk[0] = ts                       # the clock has caught up with the block's timestamp
                    if not (ts2 <= clk[0] + MAX_FUTURE and pts < ts):
                        return True
                    again = blk
                elif name == "orphan-until-its-parent-arrives":
                    if blk.timestamp > now + MAX_FUTURE:
                        return True
                    try:
                        other.handle_block_received(hdr, ms.DataMessage(ms.DATA_BLOCK, mid))
                    except Exception:
                        return False
                    if mid.hash() not in cm.coinstate.block_by_hash:
                        return False
                    again = blk
                else:
                    again = genuine                   # the genuine block with the same id arrives from an honest peer
                n0 = len(sent)
                try:
                    other.handle_block_received(hdr, ms.DataMessage(ms.DATA_BLOCK, again))
                except Exception:
                    return False
                if again.hash() not in cm.coinstate.block_by_hash or again.hash() not in _rows(store) or len(store.write_buffer) != 0:
                    return False
                if cm.coinstate.block_by_hash[again.hash()] is not again:
                    return False
                if cm.coinstate.current_chain_hash == again.hash() and (len(sent) != n0 + 1 or sent[-1] is not again):
                    return False
                return True
            # -- an invalid block arriving next must not undo what was accepted before ----------------------------
            if should_accept:
                cbq = W.env.coinbase(W.h, [dt.Output(3 * 10 ** 9, W.keys[3])], None, data=b"q")       # reward too high
                bad2 = W.candidate(cm.coinstate, [cbq], ts2, bid=tok(BLK, 8), nonce=4)
                if not real:
                    W.sha256d.preset((cbq.serialize(),), cbq.hash())
                st_before_bad = cm.coinstate
                try:
                    other.handle_block_received(hdr, ms.DataMessage(ms.DATA_BLOCK, bad2))
                except Exception:
                    pass
                if bad2.hash() in cm.coinstate.block_by_hash or blk.hash() not in cm.coinstate.block_by_hash:
                    return False
                if cm.coinstate is not st_before_bad or bad2.hash() in _rows(store):
                    return False
            # -- a later valid block is accepted and stored --------------------------------------------------
            cb2 = W.env.coinbase(W.h, [dt.Output(1, W.keys[3])], None, data=b"z")
            nxt = W.candidate(cm.coinstate, [cb2], ts2, bid=tok(BLK, 7), nonce=3)
            if not real:
                W.sha256d.preset((cb2.serialize(),), cb2.hash())
            try:
                other.handle_block_received(hdr, ms.DataMessage(ms.DATA_BLOCK, nxt))
            except Exception:
                return False
            if nxt.hash() not in cm.coinstate.block_by_hash or nxt.hash() not in _rows(store) or len(store.write_buffer) != 0:
                return False
            # nothing that was rejected has reached the store through the later flush
            if not should_accept and name != "duplicate" and blk.hash() in _rows(store):
                return False
            return True
        finally:
            bs.DefaultBlockStore.instance = saved_inst
            rpm.time = saved_time
            if real and tmpdir:
                try:
                    store.close()
                except Exception:
                    pass
                import shutil
                shutil.rmtree(tmpdir, ignore_errors=True)

    w = {"now": 5000, "ts": 3000, "pts": 2000, "v0": 10, "ov": 5, "reward": 7, "ts2": 3500}
    name = KINDS[kind]
    if name == "future-timestamp":
        w["ts"] = 6000
    if name == "timestamp-not-after-parent":
        w["ts"] = 1500
    if name == "reward-too-high":
        w["reward"] = 10 ** 9 + 6
    return check_delivery, w


def obligations(tier: str, known: List[str]) -> List[Ob]:
    T = 1800 if tier == "thorough" else 900
    obs: List[Ob] = []
    for k, name in enumerate(KINDS):
        clause = C_IN if name.startswith("valid") or name == "duplicate" else C_OUT
        obs.append(Ob("delivery[%s]" % name, clause + "; " + C_LATER, "delivery", {"kind": k}, timeout=T))
        if name in ("valid-on-head", "wrong-signature", "reward-too-high", "wrong-evidence", "timestamp-not-after-parent",
                    "stated-height-without-ancestors", "bad-merkle"):
            obs.append(Ob("delivery[%s,spends-the-pending-transaction's-input]" % name, clause + "; " + C_LATER, "delivery",
                          {"kind": k, "conflict": True}, timeout=T))
    # a block on the other branch that overtakes the served head (reorganisation) is the new head and is relayed
    obs.append(Ob("delivery[valid-on-head,served-head=sibling-fork]", C_IN + "; " + C_LATER, "delivery",
                  {"kind": KINDS.index("valid-on-head"), "served_head": "F"}, timeout=T))
    if tier == "thorough":
        for k, name in enumerate(KINDS):
            if name in ("duplicate", "valid-on-head"):
                continue
            clause = C_IN if name.startswith("valid") else C_OUT
            obs.append(Ob("delivery[%s,served-head=sibling-fork]" % name, clause + "; " + C_LATER, "delivery",
                          {"kind": k, "served_head": "F"}, timeout=T))
    obs.append(twin_of(obs[0], timeout=300))
    obs.append(twin_of([o for o in obs if o.name == "delivery[wrong-signature]"][0], timeout=300))
    return obs


def _classify(ob: Ob, model, detail: str):
    return None


def replay(ob: Ob, model):
    return generic_replay(sys.modules[__name__], ob, model, classify=_classify)

"""C07 - canonical identity: one accepted encoding per value, id = H(canonical bytes).

Clauses:
 a  VLQ primitive: encode->decode identity (value symbolic, case split on octet count) and
    decode->encode == consumed bytes for every byte string of length <= 6.
 b  encode->decode fieldwise for every consensus type (fields symbolic, list sizes enumerated);
    comparison by fields, not by the classes' __eq__.
 c  decode->encode canonicity: (i) fully symbolic byte strings of enumerated small lengths per
    type, (ii) templates: a concrete valid encoding with 1..2 positions replaced by symbolic bytes
    (every structural position in quick, every position in thorough).
 d  ids: an object obtained from bytes has hash() == H(its canonical encoding) (header for blocks);
    H is the tagged identity in symbolic mode and the real sha256d in replay.
 e  wire messages: encode->decode fieldwise for the header and the seven message classes.
"""
from __future__ import annotations

import sys
from typing import Any, Callable, List, Tuple

from symlib.runner import Ob
from symlib.common import generic_replay, twin_of
from symlib.draw import Draw, Assume, count_draws, witness

META = {
    "explanation": "Encoders and decoders of serialization.py, datatypes.py, signing.py and networking/messages.py are executed "
                   "on symbolic field values (encode->decode, compared field by field) and on symbolic byte strings "
                   "(decode->encode must reproduce exactly the consumed bytes; the cached id must equal H(canonical bytes)).",
    "technique": "CrossHair symbolic execution of the real (de)serializers on a pure-Python stream",
    "bounds": "VLQ values < 2^27 quick / < 2^34 thorough (<= 4 / 5 octets) for encode->decode, all byte strings <= 6 bytes for decode->encode; fully symbolic "
              "composite inputs <= 44 bytes; larger shapes as concrete templates with <= 2 symbolic positions; list sizes 0..2; "
              "CoinbaseData payload <= 3 bytes symbolic length",
    "outside": "length prefixes longer than 5 octets in composite objects; lists longer than 2; CoinbaseData with exactly 256 "
               "payload bytes (accepted by the constructor, not encodable: struct 'B')",
    "stubs": ["PyBytesIO for serialization.BytesIO", "hash oracle TI for datatypes.sha256d (symbolic mode only)"],
    "assumptions": ["sha256d is a function (ids are compared through it)"],
}

C_A = "variable-length quantity: single accepted encoding"
C_B = "every consensus object survives encode-then-decode unchanged"
C_C = "any byte string that decodes re-encodes to exactly the bytes consumed"
C_D = "the id of an object obtained from bytes is the hash of its canonical encoding"
C_E = "every wire message survives encode-then-decode unchanged"


def _env(real: bool):
    from symlib.prelude import import_repo_networking
    import_repo_networking()
    import skepticoin.serialization as ser
    import skepticoin.datatypes as dt
    import skepticoin.signing as sg
    import skepticoin.networking.messages as ms
    import skepticoin.networking.remote_peer as rp
    import io
    import hashlib
    if real:
        ser.BytesIO = io.BytesIO

        def H(b: bytes) -> bytes:
            return hashlib.sha256(hashlib.sha256(b).digest()).digest()
        mk = io.BytesIO
    else:
        from symlib.stubs.pyio import PyBytesIO
        ser.BytesIO = PyBytesIO
        rp.BytesIO = PyBytesIO

        def H(b: bytes) -> bytes:
            return b"\x01" + b
        mk = PyBytesIO
    dt.sha256d = H
    return ser, dt, sg, ms, H, mk


class OutOfBound(Exception):
    """Input outside the stated bound of the harness (a length prefix longer than 3 octets)."""


def _bound_vlq(ser, dt, ms) -> None:
    """Input bound of the composite decode->encode harnesses: every length prefix is <= 3 octets
    (longer prefixes are decided on the VLQ primitive alone, clause a). Implemented as a guard in
    front of the real decoder so that it costs three comparisons per prefix instead of one path per
    continuation octet."""
    real_vlq = ser.stream_deserialize_vlq
    if getattr(real_vlq, "_bounded", False):
        return

    def guarded(f):
        start = f.tell()
        peek = f.read(3)
        f.seek(start)
        if len(peek) == 3 and peek[0] >= 128 and peek[1] >= 128 and peek[2] >= 128:
            raise OutOfBound()
        return real_vlq(f)
    guarded._bounded = True
    ser.stream_deserialize_vlq = guarded
    dt.stream_deserialize_vlq = guarded
    ms.stream_deserialize_vlq = guarded


# ------------------------------------------------------------------------------------------------
# a. VLQ


def vlq_encdec(n: int, twin: bool = False, real: bool = False):
    ser, dt, sg, ms, H, mk = _env(real)
    lo = 0 if n == 1 else 2 ** (7 * (n - 1) - 1)
    hi = 2 ** (7 * n - 1)

    def check_vlq_encdec(i: int) -> bool:
        """
        post: _
        """
        if not (lo <= i < hi):
            return True
        f = mk()
        ser.stream_serialize_vlq(f, i)
        b = f.getvalue()
        if twin:
            return False
        if len(b) != n:
            return False
        # continuation bits: set on all but the last octet
        for k in range(n):
            if (b[k] >= 128) != (k < n - 1):
                return False
        g = mk(b)
        try:
            j = ser.stream_deserialize_vlq(g)
        except Exception:
            return False
        return j == i and g.tell() == n

    return check_vlq_encdec, {"i": lo}


def vlq_decenc(L: int, twin: bool = False, real: bool = False):
    ser, dt, sg, ms, H, mk = _env(real)

    def check_vlq_decenc(b: bytes) -> bool:
        """
        post: _
        """
        if len(b) != L:
            return True
        g = mk(b)
        try:
            j = ser.stream_deserialize_vlq(g)
        except Exception:
            return True
        n = g.tell()
        f = mk()
        ser.stream_serialize_vlq(f, j)
        if twin:
            return False
        return f.getvalue() == b[:n] and j >= 0

    return check_vlq_decenc, {"b": bytes([0x80, 0x40] + [0] * L)[:L] if L >= 2 else b"\x05"}


def wire_list_sizes(kind: str, n: int, twin: bool = False, real: bool = False):
    """Wire messages with a list field survive encode-then-decode for list sizes well beyond what the node itself sends
    (n concrete per instance, contents with symbolic bytes)."""
    ser, dt, sg, ms, H, mk = _env(real)
    from ipaddress import IPv6Address

    def check_wire_list(a: int, b: int) -> bool:
        """
        post: _
        """
        if not (0 <= a <= 255 and 0 <= b <= 255):
            return True
        if kind == "get_blocks":
            m = ms.GetBlocksMessage([bytes([a if j == 0 else 7, j % 256, j // 256]) + b"\x11" * 29 for j in range(n)], bytes([b]) + b"\x13" * 31)
        elif kind == "inventory":
            m = ms.InventoryMessage([ms.InventoryItem(ms.DATA_BLOCK, bytes([a if j == 0 else 7, j % 256, j // 256]) + b"\x12" * 29) for j in range(n)])
        elif kind == "peers":
            m = ms.PeersMessage([ms.Peer(a * 256 + b, IPv6Address(bytes([0x20, 1, j % 256, j // 256]) + b"\x00" * 12), 1000 + j) for j in range(n)])
        else:
            m = ms.HelloMessage([ms.SupportedVersion((a + j) % 256) for j in range(n)], IPv6Address("::1"), 1, IPv6Address("::2"), 2,
                                7, bytes([b]))
        enc = m.serialize()
        f = mk(enc + b"\x99")
        try:
            y = ms.Message.stream_deserialize(f)
        except Exception:
            return False
        if twin:
            return False
        return f.tell() == len(enc) and fields(y) == fields(m) and y.serialize() == enc

    return check_wire_list, {"a": 1, "b": 2}


def list_prefix(lo: int, hi: int, twin: bool = False, real: bool = False):
    """The length prefix of every serialized list is the VLQ encoding of its length, and the list decodes back to the
    same number of elements - for every list length in [lo, hi) (symbolic)."""
    ser, dt, sg, ms, H, mk = _env(real)

    def check_list_prefix(n: int, v: int) -> bool:
        """
        post: _
        """
        if not (lo <= n < hi and 0 <= v <= 255):
            return True
        items = [ms.SupportedVersion(v) for _ in range(n)]
        f = mk()
        ser.stream_serialize_list(f, items)
        enc = f.getvalue()
        g = mk()
        ser.stream_serialize_vlq(g, n)
        prefix = g.getvalue()
        if twin:
            return False
        if enc[:len(prefix)] != prefix or len(enc) != len(prefix) + n:
            return False
        if ser.serialize_list(items) != enc:
            return False
        back = ser.stream_deserialize_list(mk(enc), ms.SupportedVersion)
        if len(back) != n:
            return False
        for b in back:
            if b.version != v:
                return False
        return True

    return check_list_prefix, {"n": lo, "v": 3}


# ------------------------------------------------------------------------------------------------
# object builders (symbolic fields) and field extractors


def _mk_builders(dt, sg, ms, hbits: int = 27):
    from ipaddress import IPv6Address

    def b_outref(d: Draw):
        return dt.OutputReference(d.blob(32), d.u32())

    def b_sig(kind: int):
        def f(d: Draw):
            if kind == 0:
                return sg.SignableEquivalent()
            if kind == 1:
                n = d.choice(4)
                return sg.CoinbaseData(d.u32(), bytes([d.u8() for _ in range(3)])[:n])
            return sg.SECP256k1Signature(d.blob(64))
        return f

    def b_input(kind: int):
        def f(d: Draw):
            return dt.Input(b_outref(d), b_sig(kind)(d))
        return f

    def b_pubkey(d: Draw):
        return sg.SECP256k1PublicKey(d.blob(64))

    def b_output(d: Draw):
        return dt.Output(d.u64(), b_pubkey(d))

    def b_tx(kinds: Tuple[int, ...], nout: int):
        def f(d: Draw):
            return dt.Transaction([b_input(k)(d) for k in kinds], [b_output(d) for _ in range(nout)])
        return f

    def b_evidence(d: Draw):
        return dt.PowEvidence(d.blob(32), d.blob(32), d.blob(32))

    def b_summary(d: Draw):
        # height < 2^34: the VLQ bound of clause a
        return dt.BlockSummary(d.rng(0, 2 ** hbits - 1), d.blob(32), d.blob(32), d.u32(), d.blob(32), d.u32())

    def b_header(d: Draw):
        return dt.BlockHeader(b_summary(d), b_evidence(d))

    def b_header_low(d: Draw):
        # inside Block shapes the height is kept to <= 2 octets (the full range is covered by the BlockSummary and
        # BlockHeader shapes; the product of octet-count paths and transaction-shape paths does not finish)
        return dt.BlockHeader(dt.BlockSummary(d.rng(0, 2 ** 13 - 1), d.blob(32), d.blob(32), d.u32(), d.blob(32), d.u32()),
                              b_evidence(d))

    def b_block(shape: Tuple[Tuple[Tuple[int, ...], int], ...]):
        def f(d: Draw):
            return dt.Block(b_header_low(d), [b_tx(k, n)(d) for (k, n) in shape])
        return f

    # wire messages
    def b_msgheader(d: Draw):
        return ms.MessageHeader(d.u32(), d.u32(), d.u32(), d.u64())

    ip_counter = [0]

    def b_ip(d: Draw):
        # IPv6Address is the standard library's; its 128-bit to_bytes/from_bytes round trip is solver-hard and is not
        # repository code. Addresses are concrete here and distinct per field, so that swapped or dropped address
        # fields are still visible; the port next to each address is symbolic.
        ip_counter[0] += 1
        return IPv6Address(bytes([0x20, 0x01, 0x0d, 0xb8]) + bytes([ip_counter[0] % 251]) * 8 + b"\x7f\x00\x00" + bytes([ip_counter[0] % 251]))

    def b_hello(nver: int, nua: int):
        def f(d: Draw):
            return ms.HelloMessage([ms.SupportedVersion(d.u8()) for _ in range(nver)], b_ip(d), d.u16(), b_ip(d), d.u16(),
                                   d.u32(), bytes([d.u8() for _ in range(nua)]))
        return f

    def b_getblocks(n: int):
        def f(d: Draw):
            return ms.GetBlocksMessage([d.blob(32) for _ in range(n)], d.blob(32))
        return f

    def b_inventory(n: int):
        def f(d: Draw):
            return ms.InventoryMessage([ms.InventoryItem(d.blob(2), d.blob(32)) for _ in range(n)])
        return f

    def b_getdata(d: Draw):
        return ms.GetDataMessage(d.blob(2), d.blob(32))

    def b_data(which: int):
        def f(d: Draw):
            if which == 0:
                return ms.DataMessage(ms.DATA_BLOCK, b_block((((1,), 1),))(d))
            if which == 1:
                return ms.DataMessage(ms.DATA_HEADER, b_header(d))
            return ms.DataMessage(ms.DATA_TRANSACTION, b_tx((2,), 1)(d))
        return f

    def b_getpeers(d: Draw):
        return ms.GetPeersMessage()

    def b_peers(n: int):
        def f(d: Draw):
            return ms.PeersMessage([ms.Peer(d.u32(), b_ip(d), d.u16()) for _ in range(n)])
        return f

    return locals()


def fields(x: Any) -> Any:
    """Field-by-field view, independent of the classes' __eq__ (BlockSummary/CoinbaseData ignore height)."""
    t = type(x).__name__
    if t == "OutputReference":
        return (t, x.hash, x.index)
    if t == "Input":
        return (t, fields(x.output_reference), fields(x.signature))
    if t == "SignableEquivalent":
        return (t,)
    if t == "CoinbaseData":
        return (t, x.height, x.signature)
    if t == "SECP256k1Signature":
        return (t, x.signature)
    if t == "SECP256k1PublicKey":
        return (t, x.public_key)
    if t == "Output":
        return (t, x.value, fields(x.public_key))
    if t == "Transaction":
        return (t, x.version, [fields(i) for i in x.inputs], [fields(o) for o in x.outputs])
    if t == "PowEvidence":
        return (t, x.summary_hash, x.chain_sample, x.block_hash)
    if t == "BlockSummary":
        return (t, x.height, x.previous_block_hash, x.merkle_root_hash, x.timestamp, x.target, x.nonce)
    if t == "BlockHeader":
        return (t, x.version, fields(x.summary), fields(x.pow_evidence))
    if t == "Block":
        return (t, fields(x.header), [fields(tx) for tx in x.transactions])
    if t == "MessageHeader":
        return (t, x.version, x.timestamp, x.id, x.in_response_to, x.context)
    if t == "SupportedVersion":
        return (t, x.version)
    if t == "HelloMessage":
        return (t, [fields(v) for v in x.supported_versions], int(x.your_ip_address), x.your_port, int(x.my_ip_address),
                x.my_port, x.nonce, x.user_agent)
    if t == "GetBlocksMessage":
        return (t, x.version, list(x.potential_start_hashes), x.stop_hash)
    if t == "InventoryItem":
        return (t, x.data_type, x.hash)
    if t == "InventoryMessage":
        return (t, [fields(i) for i in x.items])
    if t == "GetDataMessage":
        return (t, x.data_type, x.hash)
    if t == "DataMessage":
        return (t, x.data_type, fields(x.data))
    if t == "GetPeersMessage":
        return (t,)
    if t == "Peer":
        return (t, x.last_seen_at, int(x.ip_address), x.port)
    if t == "PeersMessage":
        return (t, [fields(p) for p in x.peers])
    raise TypeError(t)


# name -> (builder-expression, decoder class name, module)
def _shapes(B) -> dict:
    return {
        "OutputReference": (B["b_outref"], "dt.OutputReference"),
        "Input[sigeq]": (B["b_input"](0), "dt.Input"),
        "Input[coinbasedata]": (B["b_input"](1), "dt.Input"),
        "Input[secp]": (B["b_input"](2), "dt.Input"),
        "Signature[coinbasedata]": (B["b_sig"](1), "sg.Signature"),
        "Signature[secp]": (B["b_sig"](2), "sg.Signature"),
        "PublicKey": (B["b_pubkey"], "sg.PublicKey"),
        "Output": (B["b_output"], "dt.Output"),
        "Transaction[0in,0out]": (B["b_tx"]((), 0), "dt.Transaction"),
        "Transaction[coinbase,1out]": (B["b_tx"]((1,), 1), "dt.Transaction"),
        "Transaction[1in,1out]": (B["b_tx"]((2,), 1), "dt.Transaction"),
        "Transaction[2in,2out]": (B["b_tx"]((2, 2), 2), "dt.Transaction"),
        "Transaction[sigeq-in,2out]": (B["b_tx"]((0,), 2), "dt.Transaction"),
        "PowEvidence": (B["b_evidence"], "dt.PowEvidence"),
        "BlockSummary": (B["b_summary"], "dt.BlockSummary"),
        "BlockHeader": (B["b_header"], "dt.BlockHeader"),
        "Block[0tx]": (B["b_block"](()), "dt.Block"),
        "Block[coinbase]": (B["b_block"]((((1,), 1),)), "dt.Block"),
        "Block[coinbase+spend]": (B["b_block"]((((1,), 1), ((2,), 2))), "dt.Block"),
    }


def _msg_shapes(B) -> dict:
    return {
        "MessageHeader": (B["b_msgheader"], "ms.MessageHeader"),
        "Hello[0ver,0ua]": (B["b_hello"](0, 0), "ms.Message"),
        "Hello[2ver,3ua]": (B["b_hello"](2, 3), "ms.Message"),
        "GetBlocks[0]": (B["b_getblocks"](0), "ms.Message"),
        "GetBlocks[2]": (B["b_getblocks"](2), "ms.Message"),
        "Inventory[0]": (B["b_inventory"](0), "ms.Message"),
        "Inventory[2]": (B["b_inventory"](2), "ms.Message"),
        "GetData": (B["b_getdata"], "ms.Message"),
        "Data[block]": (B["b_data"](0), "ms.Message"),
        "Data[header]": (B["b_data"](1), "ms.Message"),
        "Data[transaction]": (B["b_data"](2), "ms.Message"),
        "GetPeers": (B["b_getpeers"], "ms.Message"),
        "Peers[0]": (B["b_peers"](0), "ms.Message"),
        "Peers[2]": (B["b_peers"](2), "ms.Message"),
    }


def _resolve(path: str, dt, sg, ms):
    mod, cls = path.split(".")
    return getattr({"dt": dt, "sg": sg, "ms": ms}[mod], cls)


def _expected_id(x: Any, H) -> Any:
    t = type(x).__name__
    if t == "Transaction":
        return H(x.serialize())
    if t == "Block":
        return H(x.header.serialize())
    if t in ("BlockHeader", "BlockSummary"):
        return H(x.serialize())
    return None


def encdec(shape: str, wire: bool = False, w: int = 0, hbits: int = 27, twin: bool = False, real: bool = False):
    ser, dt, sg, ms, H, mk = _env(real)
    B = _mk_builders(dt, sg, ms, hbits)
    build, clspath = (_msg_shapes(B) if wire else _shapes(B))[shape]
    cls = _resolve(clspath, dt, sg, ms)
    N = count_draws(build)

    def check_encdec(vs: List[int]) -> bool:
        """
        post: _
        """
        if len(vs) != N:
            return True
        try:
            x = build(Draw(vs, w))
        except Assume:
            return True
        enc = x.serialize()
        f = mk(enc + b"\x99")      # one byte of trailing data: the decoder must stop exactly at the end
        try:
            y = cls.stream_deserialize(f)
        except Exception:
            return False
        if twin:
            return False
        if f.tell() != len(enc):
            return False
        if type(y) is not type(x):
            return False
        if fields(y) != fields(x):
            return False
        # ids: built in memory vs obtained from bytes vs hash of the encoding
        eid = _expected_id(x, H)
        if eid is not None:
            if x.hash() != eid or y.hash() != eid:
                return False
        if y.serialize() != enc:
            return False
        # an object built in memory whose content is changed afterwards is known under the id of its CURRENT encoding
        if type(x).__name__ == "Transaction" and len(x.outputs) > 0:
            x.outputs = x.outputs + [x.outputs[0]]
            if x.hash() != H(x.serialize()) or x.hash() == eid:
                return False
        return True

    return check_encdec, {"vs": witness(build)}


def decenc_free(cls: str, L: int, twin: bool = False, real: bool = False):
    """Fully symbolic byte string of length L offered to a decoder."""
    ser, dt, sg, ms, H, mk = _env(real)
    _bound_vlq(ser, dt, ms)
    klass = _resolve(cls, dt, sg, ms)

    def check_decenc_free(b: bytes) -> bool:
        """
        post: _
        """
        if len(b) != L:
            return True
        f = mk(b)
        try:
            x = klass.stream_deserialize(f)
        except Exception:
            return True   # undecodable, or outside the stated bound (OutOfBound)
        n = f.tell()
        if twin:
            return False
        if not (0 <= n <= L):
            return False
        if x.serialize() != b[:n]:
            return False
        eid = _expected_id(x, H)
        if eid is not None and x.hash() != eid:
            return False
        return True

    return check_decenc_free, None


def from_store(twin: bool = False, real: bool = False):
    """d (store): a block written to the block store and read back carries, for the block and for every transaction, an
    id equal to the hash of what the object re-encodes to, and re-encodes to the bytes that were written. Symbolic: the
    reward input's reference index (blocks stored during bulk download are not validated), value, data, a spend's index."""
    import harness.c08_store as c08
    env, bs, su, gen = c08._env(real)

    def check_from_store(idx: int, v: int, sidx: int, data: int) -> bool:
        """
        post: _
        """
        if not (0 <= idx <= 3 and 1 <= v <= 2 * 10 ** 9 and 0 <= sidx <= 2 and 0 <= data <= 255):
            return True
        if not real:
            from symlib.stubs.oracles import LRO, install_hashes
            install_hashes(LRO(0x07), None, None)
        dt, sg = env.dt, env.sg
        g = dt.Block.deserialize(gen.genesis_block_data)
        K = sg.SECP256k1PublicKey(bytes([0xC1]) * 64)
        cb = dt.Transaction([dt.Input(dt.OutputReference(b"\x00" * 32, idx), sg.CoinbaseData(1, bytes([data])))], [dt.Output(v, K)])
        sp = dt.Transaction([dt.Input(dt.OutputReference(g.transactions[0].hash(), sidx), sg.SECP256k1Signature(bytes([0x55]) * 64))],
                            [dt.Output(7, K)])
        from symlib.world import tok, BLK
        blk = env.block(1, g.hash(), [cb, sp], tok(BLK, 40), ts=g.timestamp + 10, target=g.target, merkle=bytes([0x3E, 1]) * 16)
        hsha = bs.sha256d
        store, handle = c08._new_store(env, bs, real)
        try:
            store.add_block_to_buffer(blk)
            try:
                store.flush_blocks_to_disk()
            except Exception:
                return True      # a reference the schema refuses (spend of a non-existing output): nothing was stored
            got = [b for b in store.read_blocks_from_disk() if b.hash() == blk.hash()]
            if twin:
                return False
            if len(got) != 1:
                return False
            rb = got[0]
            if rb.serialize() != blk.serialize():
                return False
            for t0, t1 in zip(blk.transactions, rb.transactions):
                if t1.serialize() != t0.serialize() or t1.hash() != hsha(t1.serialize()) or t1.hash() != t0.hash():
                    return False
            return len(rb.transactions) == 2
        finally:
            if real:
                try:
                    store.close()
                except Exception:
                    pass
                import shutil
                shutil.rmtree(handle, ignore_errors=True)

    return check_from_store, {"idx": 0, "v": 5, "sidx": 0, "data": 1}


def _template(shape: str, dt, sg, ms) -> Tuple[bytes, Any]:
    """A concrete valid encoding of the shape (distinct recognisable field contents)."""
    B = _mk_builders(dt, sg, ms)
    build, clspath = _shapes(B)[shape]
    n = count_draws(build)

    class _Fixed(Draw):
        def __init__(self):
            self.k = 0

        def raw(self) -> int:
            self.k += 1
            return self.k

        def rng(self, lo: int, hi: int) -> int:
            self.k += 1
            v = lo + (self.k * 37) % (min(hi, lo + 250) - lo + 1)
            return v
    x = build(_Fixed())
    return x.serialize(), _resolve(clspath, dt, sg, ms)


def template_positions(shape: str) -> Tuple[int, List[int]]:
    """(length, structural positions) of the template: version bytes, type tags, length prefixes."""
    ser, dt, sg, ms, H, mk = _env(True)
    enc, klass = _template(shape, dt, sg, ms)
    # structural positions are found differentially: positions where some replacement byte changes
    # whether/how far the decoder reads.
    base_n = len(enc)
    structural = []
    import io
    for i in range(len(enc)):
        outcomes = set()
        for v in (0x00, 0x01, 0x02, 0x03, 0x7F, 0x80, 0x81, 0xFF):
            if v == enc[i]:
                continue
            b = enc[:i] + bytes([v]) + enc[i + 1:]
            f = io.BytesIO(b)
            try:
                klass.stream_deserialize(f)
                outcomes.add(("ok", f.tell()))
            except Exception as e:  # noqa
                outcomes.add(("exc", type(e).__name__))
        if outcomes != {("ok", base_n)}:
            structural.append(i)
    return len(enc), structural


def decenc_template(shape: str, pos: Tuple[int, ...], twin: bool = False, real: bool = False):
    """Concrete valid encoding with the bytes at `pos` replaced by symbolic bytes, plus 2 trailing bytes."""
    ser, dt, sg, ms, H, mk = _env(real)
    enc, klass = _template(shape, dt, sg, ms)
    P = list(pos)

    def check_decenc_template(vs: List[int]) -> bool:
        """
        post: _
        """
        if len(vs) != len(P):
            return True
        for v in vs:
            if not (0 <= v <= 255):
                return True
        b = enc
        for (p, v) in zip(P, vs):
            b = b[:p] + bytes([v]) + b[p + 1:]
        b = b + b"\x99\x98"
        f = mk(b)
        try:
            x = klass.stream_deserialize(f)
        except Exception:
            return True
        n = f.tell()
        if twin:
            return False
        if x.serialize() != b[:n]:
            return False
        eid = _expected_id(x, H)
        if eid is not None and x.hash() != eid:
            return False
        return True

    return check_decenc_template, {"vs": [enc[p] for p in P]}


# ------------------------------------------------------------------------------------------------


FREE = {  # decoder -> lengths (quick), extra lengths (thorough)
    "dt.OutputReference": ([36, 37], [35]),
    "sg.Signature": ([1, 7, 9, 65], [6, 8, 66]),
    "sg.PublicKey": ([65, 66], [64]),
    "dt.Input": ([37, 43], [38, 44, 45]),
    "dt.Transaction": ([3, 4, 40], [5, 41, 44]),
    "dt.PowEvidence": ([96, 97], []),
    "dt.BlockSummary": ([105, 106], [107]),
    "dt.BlockHeader": ([202], [203]),
    "dt.Block": ([203, 206], [204, 207]),
}


def obligations(tier: str, known: List[str]) -> List[Ob]:
    obs: List[Ob] = []
    thorough = tier == "thorough"
    for n in ((1, 2, 3, 4, 5) if thorough else (1, 2, 3, 4)):
        obs.append(Ob("a.vlq.enc-dec[octets=%d]" % n, C_A, "vlq_encdec", {"n": n}, timeout=120 if not thorough else 600))
    for L in range(1, 7):
        obs.append(Ob("a.vlq.dec-enc[len=%d]" % L, C_A, "vlq_decenc", {"L": L}, timeout=120))
    obs.append(twin_of(obs[1]))
    obs.append(twin_of(obs[-2]))
    for (lo, hi) in ((0, 35), (35, 70), (70, 100), (100, 132)) + (((132, 165), (165, 200), (200, 260)) if thorough else ()):
        obs.append(Ob("a.list-length-prefix[%d<=n<%d]" % (lo, hi), C_A + "; " + C_B, "list_prefix", {"lo": lo, "hi": hi}, timeout=600))
    # b. consensus objects, fields symbolic
    ser, dt, sg, ms, H, mk = _env(True)
    B = _mk_builders(dt, sg, ms)
    first = True
    WIDE = ("Output", "Transaction[coinbase", "Transaction[1in", "Transaction[2in", "Transaction[sigeq", "Block[coinbase",
            "MessageHeader", "Hello", "Peers[2]", "Data[block]", "Data[transaction]")

    def windows(shape: str) -> List[int]:
        if not shape.startswith(WIDE):
            return [0]
        if shape.startswith(("Hello", "Peers")):
            return [0]
        return list(range(0, 7)) if thorough else [0, 3, 6]
    for shape in _shapes(B):
        for w in windows(shape):
            o = Ob("b.enc-dec[%s,w=%d]" % (shape, w), C_B + "; " + C_D, "encdec", {"shape": shape, "w": w, "hbits": 34 if thorough else 27},
                   timeout=300 if not thorough else 900)
            obs.append(o)
            if first or (shape.startswith("Block[coinbase]") and w == 0):
                obs.append(twin_of(o))
                first = False
    for shape in _msg_shapes(B):
        for w in windows(shape):
            obs.append(Ob("e.enc-dec[%s,w=%d]" % (shape, w), C_E, "encdec", {"shape": shape, "wire": True, "w": w},
                          timeout=300 if not thorough else 900))
    obs.append(twin_of(obs[-1]))
    obs.append(Ob("d.id-of-objects-read-from-the-store", C_D, "from_store", {}, timeout=600))
    for kind in ("get_blocks", "inventory", "peers", "hello"):
        for n in ((3, 63, 64, 70, 127, 128, 129, 200, 500, 501) if thorough else (64, 129, 500)):
            if kind == "hello" and n > 255:
                continue
            obs.append(Ob("e.list-size[%s,n=%d]" % (kind, n), C_E, "wire_list_sizes", {"kind": kind, "n": n}, timeout=600))
    # c. fully symbolic small strings
    for cls, (q, t) in FREE.items():
        for L in (q + t if thorough else q):
            obs.append(Ob("c.dec-enc.free[%s,len=%d]" % (cls, L), C_C + "; " + C_D, "decenc_free", {"cls": cls, "L": L},
                          timeout=300 if not thorough else 1200))
    obs.append(twin_of([o for o in obs if o.name.startswith("c.dec-enc.free[dt.Transaction,len=40")][0]))
    # c. templates with symbolic positions
    for shape in ("Transaction[1in,1out]", "Transaction[coinbase,1out]", "Block[coinbase+spend]", "BlockHeader"):
        L, structural = template_positions(shape)
        poss: List[Tuple[int, ...]] = [(p,) for p in (range(L) if thorough else structural)]
        # pairs of neighbouring structural positions (length prefix + following tag etc.)
        for a, b in zip(structural, structural[1:]):
            poss.append((a, b))
        for p in poss:
            obs.append(Ob("c.dec-enc.template[%s,pos=%s]" % (shape, ",".join(map(str, p))), C_C + "; " + C_D,
                          "decenc_template", {"shape": shape, "pos": p}, timeout=300))
    obs.append(twin_of(obs[-1]))
    return obs


def _classify(ob: Ob, model, detail: str):
    if ob.builder in ("vlq_decenc", "decenc_free", "decenc_template"):
        return "C07/decoder-accepts-non-canonical-bytes"
    return None


def replay(ob: Ob, model):
    return generic_replay(sys.modules[__name__], ob, model, classify=_classify)

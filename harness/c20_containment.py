"""C20 - malformed input from a peer is contained to that connection.

Everything goes through the real LocalPeer.handle_remote_peer_selector_event (the per-connection
catch-all) on a node shell with two other connected peers, a pending pool and a recording store.
 A bytes level: the offending peer's socket yields MAGIC | length | 45-byte header | 2 type bytes |
   body, with the body (<= 24 bytes), the type bytes (unknown types) or the header bytes symbolic,
   before and after the greeting. No well-formed block or transaction fits in 24 bytes, so whatever
   the bytes are: no exception escapes, chain state / pool / store calls are untouched, the other
   connections are untouched, at most this connection is closed.
 B object level: the same entry point is fed message objects with symbolic fields for each malformed
   class the handlers distinguish - any message before the greeting (incl. a perfectly valid
   transaction), unknown data type, get-data for a transaction, header data, orphan block, block
   failing a by-itself rule, transaction failing each rule (incl. the amount-range error that is not
   a ValidateTransactionError), over-limit inventory.
 Framing faults (wrong magic, over-limit length, fragmentation) are C11's subject and run through the
 same catch-all in A with a symbolic magic byte.
"""
from __future__ import annotations

import struct
import sys
from typing import Any, List, Optional, Tuple

from symlib.runner import Ob
from symlib.common import generic_replay, twin_of
from symlib.symblock import World, MAX_SASHIMI
from symlib.world import tok, TX, BLK

META = {
    "explanation": "LocalPeer.handle_remote_peer_selector_event (catch-all) -> handle_receive_data -> MessageReceiver -> MessageHeader / "
                   "Message decoders -> ConnectedRemotePeer handlers executed on symbolic bytes (A) and on message objects with symbolic "
                   "fields (B); before/after comparison of chain state object, pool, store calls, other peers and the selector.",
    "technique": "CrossHair symbolic execution of the per-connection event handler down to the decoders and message handlers on a node shell",
    "bounds": "A: body <= 24 symbolic bytes per message type, length prefixes <= 3 octets, symbolic header / type / magic bytes in separate instances; "
              "B: one message of each malformed class with symbolic fields",
    "outside": "real sockets and selectors; byte floods longer than the bound (well-formed larger messages are C07/C09/C13's subject)",
    "stubs": ["node shell (recording selector, fake sockets, recording disk)", "stubs as C01 for the objects in B"],
    "assumptions": [],
}

C_1 = "malformed input never stops the event loop (no exception escapes the per-connection handler)"
C_2 = "it never changes chain state, pending pool or block store"
C_3 = "it never affects other connections; at most the offending connection is closed"

TYPES = {"hello": b"\x00\x00", "get_blocks": b"\x00\x01", "inventory": b"\x00\x02", "get_data": b"\x00\x03", "data": b"\x00\x04",
         "get_peers": b"\x00\x05", "peers": b"\x00\x06"}
HDR = b"\x00" + struct.pack(">I", 1) + struct.pack(">I", 1) + struct.pack(">I", 0) + struct.pack(">Q", 7) + b"\x00" * 32


def _node(real: bool):
    W = World(real=real, networking=True, served_head="P")
    from symlib import nodeshell as ns
    import skepticoin.networking.remote_peer as rpm
    import skepticoin.serialization as ser
    if not real:
        from symlib.stubs.pyio import PyBytesIO
        rpm.BytesIO = PyBytesIO
        ser.BytesIO = PyBytesIO
    else:
        import io
        rpm.BytesIO = io.BytesIO
        ser.BytesIO = io.BytesIO
    return W, ns, rpm


class _BufferStore:
    """Stands in for the block store where its SQL side is not the subject (C08/C09): write buffer + flushed rows."""

    def __init__(self) -> None:
        self.write_buffer: List[Any] = []
        self.rows: List[Any] = []

    def add_block_to_buffer(self, block: Any) -> None:
        self.write_buffer.append(block)

    def flush_blocks_to_disk(self) -> None:
        self.rows += self.write_buffer
        self.write_buffer.clear()


def _snapshot(lp, others: List[Any]) -> Any:
    import skepticoin.blockstore as bs
    cm = lp.chain_manager
    st = bs.DefaultBlockStore.instance
    return (cm.coinstate, list(cm.transaction_pool), cm.last_known_valid_coinstate,
            [(id(p), p.hello_sent, p.hello_received, len(p.send_backlog), p.send_buffer, p.sock.closed, len(p.inventory_messages),
              p.sock in lp.selector.map) for p in others],
            list(st.write_buffer), len(st.rows))


def _same(a: Any, b: Any) -> bool:
    if a[0] is not b[0] or a[2] is not b[2]:
        return False
    if len(a[1]) != len(b[1]):
        return False
    for x, y in zip(a[1], b[1]):
        if x is not y:
            return False
    return a[3] == b[3] and len(a[4]) == len(b[4]) and a[5] == b[5]


def _setup(W: World, ns, greeted: bool):
    W._install_crypto() if not W.real else None
    pv = [10, 6, 7, 8]
    import skepticoin.blockstore as bs
    import skepticoin.networking.disk_interface as di
    bs.DefaultBlockStore.instance = _BufferStore()

    class _Disk(ns.RecordingDisk):
        # blocks go to the (stand-in) store exactly as DiskInterface does; the debugging dump of refused transactions
        # (a file under /tmp) and the peer file are recorded instead of written
        def save_block(self, block: Any) -> None:
            bs.DefaultBlockStore.instance.add_block_to_buffer(block)

        def flush_blocks(self) -> None:
            bs.DefaultBlockStore.instance.flush_blocks_to_disk()
    lp = ns.make_node(disk=_Disk())
    cm = lp.chain_manager
    cm.coinstate = W.state(pv)
    cm.last_known_valid_coinstate = cm.coinstate
    cm.transaction_pool = [W.make_tx(tok(TX, 41), [(2, 0, 0)], [(3, 2)], pv, tok(TX, 99), None)]
    bad = ns.connect_peer(lp, "10.0.0.66", 1000, "INCOMING", hello=greeted)
    bad.hello_sent = True
    o1 = ns.connect_peer(lp, "10.0.0.2", 1000, "INCOMING")
    o2 = ns.connect_peer(lp, "10.0.0.3", 2412, "OUTGOING")
    return lp, bad, [o1, o2], pv


def _deliver(lp, ns, bad, data: Optional[bytes]) -> Optional[str]:
    """One read event on the offending connection; returns the name of an escaping exception (None if contained)."""
    if data is not None:
        bad.sock.inbox.append(data)
    try:
        lp.handle_remote_peer_selector_event(ns.SelKey(bad.sock, bad), 1)
    except Exception as e:  # noqa
        return type(e).__name__
    return None


def _bound_vlq() -> None:
    import skepticoin.serialization as ser
    import skepticoin.datatypes as dt
    import skepticoin.networking.messages as ms
    from harness.c07_canonical import _bound_vlq as b
    b(ser, dt, ms)


def bytes_level(mtype: str, L: int, greeted: bool, sym: str = "body", twin: bool = False, real: bool = False):
    W, ns, rpm = _node(real)
    if not real:
        _bound_vlq()

    def check_bytes(body: bytes, x: int) -> bool:
        """
        post: _
        """
        if len(body) != L or not (0 <= x <= 255):
            return True
        lp, bad, others, pv = _setup(W, ns, greeted)
        before = _snapshot(lp, others)
        hdr, typ, magic = HDR, TYPES.get(mtype, b"\x00\x07"), b"MAJI"
        if sym == "type":
            typ = bytes([0, x]) if x > 6 else bytes([x, 9])
        elif sym == "header":
            hdr = bytes([x]) + HDR[1:9] + bytes([x]) + HDR[10:]
        elif sym == "magic":
            if x == ord("J"):
                return True
            magic = b"MA" + bytes([x]) + b"I"
        payload = hdr + typ + body
        stream = magic + struct.pack(">I", len(payload)) + payload
        escaped = _deliver(lp, ns, bad, stream)
        if twin:
            return not bad.sock.closed
        if escaped is not None:
            return False
        after = _snapshot(lp, others)
        if not _same(before, after):
            return False
        # the event loop's bookkeeping is intact: the others are still registered and connected
        for p in others:
            if (p.host, p.port, p.direction) not in lp.network_manager.connected_peers:
                return False
        try:
            lp.network_manager._sanity_check()
        except Exception:
            return False
        return True

    return check_bytes, {"body": bytes([0] * L), "x": 0}


def object_level(cls: str, twin: bool = False, real: bool = False):
    W, ns, rpm = _node(real)
    import skepticoin.networking.messages as ms
    dt = W.dt

    def check_object(greeted: bool, v: int, k: int, n: int) -> bool:
        """
        post: _
        """
        if not (0 <= v < 2 ** 64 and 0 <= k <= 6 and 0 <= n <= 3):
            return True
        lp, bad, others, pv = _setup(W, ns, greeted)
        cm = lp.chain_manager
        hdr = ms.MessageHeader(1, 1, 0, 7)
        cbid = tok(TX, 99)
        valid_tx = W.make_tx(tok(TX, 42), [(0, 0, 0)], [(5, 1)], pv, cbid, None)
        expect_refused = True
        if cls == "anything-before-greeting":
            if greeted:
                return True
            msg = [ms.DataMessage(ms.DATA_TRANSACTION, valid_tx), ms.GetPeersMessage(), ms.GetBlocksMessage([tok(BLK, 1)]),
                   ms.InventoryMessage([ms.InventoryItem(ms.DATA_BLOCK, tok(BLK, 9))])][n]
        else:
            if not greeted:
                return True
            if cls == "unknown-data-type":
                msg = ms.DataMessage(bytes([0, 3 + n]), valid_tx)
            elif cls == "get-data-for-transaction":
                msg = ms.GetDataMessage(ms.DATA_TRANSACTION if n < 2 else ms.DATA_HEADER, tok(TX, 42))
            elif cls == "header-data":
                msg = ms.DataMessage(ms.DATA_HEADER, W.P.header)
            elif cls == "orphan-block":
                cb = W.env.coinbase(W.h + n, [dt.Output(1, W.keys[3])], tok(TX, 20))
                msg = ms.DataMessage(ms.DATA_BLOCK, W.env.block(W.h + n, tok(BLK, 70 + n), [cb], tok(BLK, 71), ts=3000))
            elif cls == "block-failing-by-itself":
                cb = W.env.coinbase(W.h + (1 if n == 0 else 0), [dt.Output(1, W.keys[3])], tok(TX, 20))
                txs = [cb] if n != 1 else []
                if n == 2:
                    txs = [cb, valid_tx, valid_tx]
                merkle = tok(0x3E, 5) if n == 3 else (W.ref_merkle([t.hash() for t in txs]) if txs else tok(0x3E, 6))
                msg = ms.DataMessage(ms.DATA_BLOCK, W.env.block(W.h, W.P.hash(), txs, tok(BLK, 72), ts=3000, merkle=merkle))
            elif cls == "transaction-failing-a-rule":
                try:
                    if n == 0:
                        bad_tx = W.make_tx(tok(TX, 43), [(0, 0, k)], [(v, 1)], pv, cbid, None)       # signature kind / amount symbolic
                        if k == 0 and 0 < v <= 10:
                            return True      # that one would be valid
                    elif n == 1:
                        bad_tx = W.make_tx(tok(TX, 43), [(6, v % 2 ** 32, 0)], [(1, 1)], pv, cbid, None)      # never-existed output
                    elif n == 2:
                        bad_tx = dt.Transaction([], [dt.Output(1, W.keys[1])], cached_hash=tok(TX, 43))       # no inputs
                    else:
                        bad_tx = W.make_tx(tok(TX, 43), [(2, 0, 0)], [(1, 1)], pv, cbid, None)                 # conflicts with the pending one
                except Exception:
                    return True
                msg = ms.DataMessage(ms.DATA_TRANSACTION, bad_tx)
            elif cls == "block-whose-validation-hits-an-internal-error":
                # passes the by-itself checks, but claims a height for which its chain has no ancestors to sample:
                # recomputing the evidence raises a KeyError (not a ValidationError) after the block was applied
                hh = W.h + 2 + n
                cb = W.env.coinbase(hh, [dt.Output(1, W.keys[3])], tok(TX, 20))
                blkx = W.env.block(hh, W.P.hash(), [cb], tok(BLK, 73), ts=3000, merkle=W.ref_merkle([cb.hash()]))
                msg = ms.DataMessage(ms.DATA_BLOCK, blkx)
                if k >= 3:
                    # history: after a peer's block had been validated, the node itself published a newer state the way the
                    # miner and the start-up code do (set_coinstate with its default arguments)
                    own = W.candidate(cm.coinstate, [W.env.coinbase(W.h, [dt.Output(1, W.keys[3])], tok(TX, 22))], 3000, bid=tok(BLK, 74))
                    cm.set_coinstate(cm.coinstate.add_block(own, 3000))
            elif cls == "over-limit-inventory":
                msg = ms.InventoryMessage([ms.InventoryItem(ms.DATA_BLOCK, tok(BLK, 80)) for _ in range(501 + n)])
            else:
                return True
        before = _snapshot(lp, others)
        bad.handle_receive_data = lambda data: bad.handle_message_received(hdr, msg)
        escaped = _deliver(lp, ns, bad, b"x")
        if twin:
            return not bad.sock.closed
        if escaped is not None:
            return False
        if not _same(before, _snapshot(lp, others)):
            return False
        for p in others:
            if (p.host, p.port, p.direction) not in lp.network_manager.connected_peers or p.sock.closed:
                return False
        # nothing was relayed to the others
        for p in others:
            if p.send_backlog or p.send_buffer:
                return False
        if cls == "anything-before-greeting" and not bad.sock.closed:
            return False
        return True

    return check_object, {"greeted": cls != "anything-before-greeting", "v": 0, "k": 1, "n": 0}


def replayed_block(lo: int, hi: int, then_genuine: bool = False, twin: bool = False, real: bool = False):
    """Replay of valid traffic with one corrupted byte: the bytes of a block the node already has (the sibling fork's tip),
    one byte replaced by a symbolic value, delivered as a data message. Nothing may change: the node either recognises the
    block it has, or refuses the bytes. then_genuine: the node does NOT have the block yet; after the corrupted copy was refused,
    the genuine bytes arrive on another connection and must be accepted (a refusal is not held against the id)."""
    W = World(real=real, networking=True, served_head="P", lro=True)
    from symlib import nodeshell as ns
    import skepticoin.networking.remote_peer as rpm
    import skepticoin.serialization as ser
    if not real:
        from symlib.stubs.pyio import PyBytesIO
        rpm.BytesIO = PyBytesIO
        ser.BytesIO = PyBytesIO
    else:
        import io
        rpm.BytesIO = io.BytesIO
        ser.BytesIO = io.BytesIO

    def check_replayed(pos: int, v: int) -> bool:
        """
        post: _
        """
        if not (lo <= pos < hi and 0 <= v <= 255):
            return True
        lp, bad, others, pv = _setup(W, ns, True)
        cm = lp.chain_manager
        # the block the node already has: its current head, one above the checkpoint horizon (fully validated when it came in);
        # all ids are derived from the bytes (no preset ids), so decoding the same bytes gives the same ids
        cb = W.env.coinbase(W.h, [W.dt.Output(1, W.keys[3])], None, data=b"k")
        known = W.candidate(cm.coinstate, [cb], 3000, bid=None, nonce=2)
        if not then_genuine:
            cm.coinstate = cm.coinstate.add_block(known, 3000)
            cm.last_known_valid_coinstate = cm.coinstate
        enc = known.serialize()
        if pos >= len(enc):
            return True
        if then_genuine and v == enc[pos]:
            return True
        body = enc[:pos] + bytes([v]) + enc[pos + 1:]
        payload = HDR + TYPES["data"] + b"\x00" + b"\x00\x00" + body
        stream = b"MAJI" + struct.pack(">I", len(payload)) + payload
        before = _snapshot(lp, others)
        nblocks = len(lp.chain_manager.coinstate.block_by_hash)
        escaped = _deliver(lp, ns, bad, stream)
        if twin:
            return not bad.sock.closed
        if escaped is not None:
            return False
        if not _same(before, _snapshot(lp, others)):
            return False
        if len(lp.chain_manager.coinstate.block_by_hash) != nblocks:
            return False
        if then_genuine:
            good = HDR + TYPES["data"] + b"\x00" + b"\x00\x00" + enc
            if _deliver(lp, ns, others[0], b"MAJI" + struct.pack(">I", len(good)) + good) is not None:
                return False
            cs2 = lp.chain_manager.coinstate
            return len(cs2.block_by_hash) == nblocks + 1 and cs2.head().serialize() == enc
        return True

    return check_replayed, {"pos": lo, "v": 1}


CLASSES = ["anything-before-greeting", "unknown-data-type", "get-data-for-transaction", "header-data", "orphan-block",
           "block-failing-by-itself", "block-whose-validation-hits-an-internal-error", "transaction-failing-a-rule", "over-limit-inventory"]


def obligations(tier: str, known: List[str]) -> List[Ob]:
    thorough = tier == "thorough"
    T = 1800 if thorough else 900
    obs: List[Ob] = []
    for mtype in list(TYPES) + ["unknown"]:
        for L in ((0, 1, 3, 8, 24) if thorough else (0, 3, 24)):
            for greeted in ((True, False) if (thorough or L == 3) else (True,)):
                if mtype == "peers" and L == 24:
                    L = 23      # 24 bytes hold a well-formed one-peer announcement (not malformed input; its IPv6 arithmetic
                    #             on symbolic bytes does not finish): one byte less is the longest malformed body
                obs.append(Ob("bytes[type=%s,body=%d,greeted=%s]" % (mtype, L, greeted), C_1 + "; " + C_2 + "; " + C_3, "bytes_level",
                              {"mtype": mtype, "L": L, "greeted": greeted}, timeout=T))
    for sym in ("type", "header", "magic"):
        obs.append(Ob("bytes[symbolic-%s]" % sym, C_1 + "; " + C_2 + "; " + C_3, "bytes_level",
                      {"mtype": "get_peers", "L": 1, "greeted": True, "sym": sym}, timeout=T))
    obs.append(twin_of([o for o in obs if o.name == "bytes[type=data,body=3,greeted=True]"][0], timeout=300))
    # replay of a known block with one corrupted byte (bytes level, full-size message)
    for lo in (list(range(0, 328, 8)) if thorough else [0, 104, 200, 208]):
        obs.append(Ob("bytes[replayed-known-block,corrupted byte %d-%d]" % (lo, lo + 7), C_2 + "; " + C_3, "replayed_block",
                      {"lo": lo, "hi": lo + 8}, timeout=T))
    obs.append(twin_of([o for o in obs if o.name.startswith("bytes[replayed-known-block,corrupted byte 0-7")][0], timeout=300))
    for lo in (list(range(0, 328, 8)) if thorough else [0, 208, 312]):
        obs.append(Ob("bytes[corrupted copy of an unknown block (byte %d-%d), then the genuine block]" % (lo, lo + 7), C_2 + "; " + C_3,
                      "replayed_block", {"lo": lo, "hi": lo + 8, "then_genuine": True}, timeout=T))
    for c in CLASSES:
        obs.append(Ob("object[%s]" % c, C_1 + "; " + C_2 + "; " + C_3, "object_level", {"cls": c}, timeout=T))
    obs.append(twin_of([o for o in obs if o.name == "object[transaction-failing-a-rule]"][0], timeout=300))
    return obs


def replay(ob: Ob, model):
    return generic_replay(sys.modules[__name__], ob, model)

"""C16 - monetary schedule matches the documented parameters.

Symbolic: the block height (unbounded inside an era), an amount. Reference figures are the
literals of the property statement / docs, not the repository's constants.
"""
from __future__ import annotations

import re
from typing import List

from symlib.runner import Ob
from symlib.common import generic_replay, with_twins

INIT = 1_000_000_000          # 10 coin in sashimi (property statement)
INTERVAL = 1_050_000
TOTAL = 2_099_999_986_350_000
MAX_ENCODABLE_HEIGHT = 0xFFFFFFFF   # CoinbaseData.height is a 4-byte field

def _repo_root() -> str:
    import os
    return os.environ.get("VERIF_REPO", "/repo").rstrip("/")


META = {
    "explanation": "Era lemma: for every era k in 0..63 and EVERY height h in [k*I,(k+1)*I) (h symbolic, unbounded inside "
                   "the era) get_block_subsidy(h) == 10^9 // 2^k; for every h >= 64*I it is 0 (h symbolic, no upper bound); "
                   "monotonicity across every era boundary; the sum over all heights follows from the era lemma by exact integer "
                   "arithmetic (z3) and equals MAX_SASHIMI, the docs figure and the validator's amount limit "
                   "(validate_sashimi_range with a symbolic amount).",
    "technique": "CrossHair symbolic execution of get_block_subsidy / validate_sashimi_range per era + z3 integer arithmetic",
    "bounds": "none inside an era (height is an unbounded mathematical integer); 65 era case splits",
    "outside": "negative heights",
    "stubs": [],
    "assumptions": ["height >= 0"],
}


def era(k: int, twin: bool = False, real: bool = False):
    from symlib.prelude import import_repo
    import_repo()
    from skepticoin.consensus import get_block_subsidy

    def check_era(h: int) -> bool:
        """
        post: _
        """
        if k < 64:
            if not (k * INTERVAL <= h < (k + 1) * INTERVAL):
                return True
            expected = INIT // (2 ** k)
        else:
            if not (h >= 64 * INTERVAL):
                return True
            expected = 0
        got = get_block_subsidy(h)
        if twin:
            return False
        if got != expected:
            return False
        # never increases with height (covers the boundary h -> h+1 into the next era)
        nxt = get_block_subsidy(h + 1)
        return nxt <= got <= INIT

    return check_era, {"h": k * INTERVAL}


def amount_limit(twin: bool = False, real: bool = False):
    from symlib.prelude import import_repo
    import_repo()
    from skepticoin.consensus import validate_sashimi_range

    def check_amount(v: int) -> bool:
        """
        post: _
        """
        try:
            validate_sashimi_range(v)
            accepted = True
        except Exception:
            accepted = False
        if twin:
            return not accepted
        return accepted == (0 < v <= TOTAL)

    return check_amount, {"v": 5}


def enforced(shape: str, h: int, twin: bool = False, real: bool = False):
    """The schedule and the limit as the validator ENFORCES them (not only as get_block_subsidy / validate_sashimi_range compute
    them): a block at an era boundary may claim at most the subsidy of ITS height plus fees, and the limit applies to the total
    of a transaction's outputs as well as to each of them. Harness shared with C02 (CoinState.add_block, symbolic amounts)."""
    from harness import c02_inflation
    return c02_inflation.step(shape, h, twin=twin, real=real)


def total_supply():
    """z3: sum over eras of I * (10^9 div 2^k) == documented maximum == MAX_SASHIMI == docs/params.md."""
    import time
    import z3
    from symlib.prelude import import_repo
    import_repo()
    import skepticoin.params as P
    t0 = time.time()
    s = z3.Solver()
    terms = [z3.IntVal(INTERVAL) * (z3.IntVal(INIT) / z3.IntVal(2 ** k)) for k in range(64)]
    total = z3.Sum(terms)
    docs = open(_repo_root() + "/docs/params.md").read()
    m = re.search(r"([0-9]{1,3}(?:,[0-9]{3})+\.[0-9]{8})", docs)
    docs_total = int(m.group(1).replace(",", "").replace(".", "")) if m else -1
    facts = {
        "sum_of_eras == 2_099_999_986_350_000": total == TOTAL,
        "MAX_SASHIMI == documented maximum": z3.IntVal(P.MAX_SASHIMI) == TOTAL,
        "docs/params.md figure == documented maximum": z3.IntVal(docs_total) == TOTAL,
        "INITIAL_SUBSIDY == 10 * SASHIMI_PER_COIN == 10^9": z3.And(z3.IntVal(P.INITIAL_SUBSIDY) == 10 * z3.IntVal(P.SASHIMI_PER_COIN),
                                                                   z3.IntVal(P.INITIAL_SUBSIDY) == INIT),
        "SUBSIDY_HALVING_INTERVAL == 1_050_000": z3.IntVal(P.SUBSIDY_HALVING_INTERVAL) == INTERVAL,
        "subsidy exhausted exactly after era 29 (10^9 // 2^30 == 0) and positive before": z3.And(
            z3.IntVal(INIT) / z3.IntVal(2 ** 30) == 0, z3.IntVal(INIT) / z3.IntVal(2 ** 29) > 0),
    }
    failed = []
    q = 0
    for name, f in facts.items():
        s.push()
        s.add(z3.Not(f))
        r = s.check()
        q += 1
        s.pop()
        if str(r) != "unsat":
            failed.append(name)
    return {"status": "confirmed" if not failed else "refuted", "detail": "; ".join(failed) or "all %d facts unsat-negated" % q,
            "queries": q, "solver_s": time.time() - t0,
            "model": ({"failed": failed, "docs_total": docs_total, "MAX_SASHIMI": P.MAX_SASHIMI} if failed else None),
            "functions": ["skepticoin.params:<constants>", "docs/params.md:<maximum supply figure>"]}


def obligations(tier: str, known: List[str]) -> List[Ob]:
    obs = [Ob("era[k=%d]" % k, "subsidy is 10 coin halved every 1,050,000 blocks, never increases, zero once exhausted",
              "era", {"k": k}, timeout=60) for k in range(65)]
    obs.append(Ob("amount-limit", "documented maximum is the validator's upper limit on any amount", "amount_limit", {}, timeout=60))
    obs = with_twins(obs, every=8)
    for (shape, hh) in (("reward-only", 1050000), ("reward-only", 1049999), ("reward-only", 33 * 1050000), ("1tx-2in-2out", 2), ("1tx-1in-2out-2rewards", 2)):
        obs.append(Ob("enforced[%s,h=%d]" % (shape, hh), "the validator enforces the schedule of the block's own height and the limit on totals",
                      "enforced", {"shape": shape, "h": hh}, timeout=600))
    obs.append(Ob("total-supply", "sum over all heights == 2,099,999,986,350,000 == documented maximum", "total_supply", {}, kind="e2"))
    return obs


def replay(ob: Ob, model):
    import sys
    mod = sys.modules[__name__]
    if ob.kind == "e2":
        out = total_supply()
        return {"reproduced": out["status"] == "refuted", "detail": out["detail"], "key": "constants"}
    return generic_replay(mod, ob, model)

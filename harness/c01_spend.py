"""C01 - no unauthorised or double spending in any fully validated block.

One real CoinState.add_block step on the SymBlock world (symlib/symblock.py). Symbolic: the four
values of the parent's unspent outputs, the adversarial input's reference index (32 bit) and
signature kind, output values, the reward, the clock; case split: block shape x reference pool.
Oracle: accepted => every reference is unspent at the PARENT, references pairwise distinct in the
block, none created in this block, every signature is the owner's over exactly this transaction.
Rejected => an exception and the pre-state snapshot is unchanged.
"""
from __future__ import annotations

import sys
from typing import Any, List, Optional, Tuple

from symlib.runner import Ob
from symlib.common import generic_replay, twin_of
from symlib.draw import Draw, Assume, count_draws, witness
from symlib.symblock import World, POOL_NAMES, SIG_NAMES, MAX_SASHIMI
from symlib.world import tok, TX, BLK, snapshot_state, same_snapshot

META = {
    "explanation": "CoinState.add_block (validate_block_by_itself + validate_block_in_coinstate + apply) executed on a candidate "
                   "block whose spend is adversarial in a symbolic way: reference from a pool (unspent / spent earlier / other fork / "
                   "never existed / created in this block / null) with a free 32-bit index, seven kinds of object where the signature "
                   "belongs, symbolic values. Accepted implies the stated conditions; rejected implies an exception and an untouched "
                   "pre-state. Frame: validation reads the unspent map only at the parent id (read log). The signed message determines "
                   "all references and outputs (clause d). The relay entry (handle_block_received) is driven with unauthorised spends "
                   "on the head's branch and on a side branch (harness shared with C09).",
    "technique": "CrossHair symbolic execution of CoinState.add_block on a directly constructed chain state (one step from an arbitrary parent state)",
    "bounds": "<= 2 ordinary transactions, <= 2 inputs, <= 2 outputs, parent unspent map of 6 entries (4 symbolic values), values < 2^64 as a "
              "16-bit window or full range where the solver copes, index < 2^32",
    "outside": "larger blocks (checks are per input and per pair); chains longer than root-parent-candidate plus one sibling fork: the frame "
               "obligation shows only the parent's unspent map is read",
    "stubs": ["PyMap for immutables.Map", "PyBytesIO", "ideal signatures for ecdsa", "tagged-identity hashes", "chain-sample oracle",
              "checkpoint horizon set to -1"],
    "assumptions": ["signatures unforgeable (EUF-CMA idealisation)", "hashes collision-free", "transaction ids of distinct transactions differ"],
}

C_A = "accepted only if every spend references an output unspent at the parent, none twice, none created in the block, each signed by the owner over the whole transaction"
C_R = "a violating block is rejected and the prior chain state is left exactly as it was"
C_F = "validation against the parent's state, whatever other forks are stored (frame)"
C_D = "the signed message covers the complete list of references and outputs"

SHAPES = ("1in", "2in", "2in-first", "2tx")


def _build(W: World, shape: str, c: int, d: Draw):
    pv = [d.rng(1, 10 ** 15) for _ in range(4)]
    idx = d.u32()
    kind = d.choice(7)
    ov0 = d.rng(0, 2 ** 64 - 1) if False else d.rng(0, 3 * 10 ** 15)
    ov1 = d.rng(0, 3 * 10 ** 15)
    reward = d.rng(0, 3 * 10 ** 9)
    now = d.rng(0, 2 ** 32 - 1)
    ts = d.rng(0, 2 ** 32 - 1)
    return pv, idx, kind, ov0, ov1, reward, now, ts


def spend(shape: str, c: int, served_head: str = "P", twin: bool = False, real: bool = False):
    W = World(real=real, served_head=served_head)
    dt = W.dt
    N = count_draws(lambda d: _build(W, shape, c, d))

    def check_spend(vs: List[int]) -> bool:
        """
        post: _
        """
        if len(vs) != N:
            return True
        try:
            pv, idx, kind, ov0, ov1, reward, now, ts = _build(W, shape, c, Draw(vs))
        except Assume:
            return True
        if not real:
            W._install_crypto()         # fresh oracle tables / signature registry for this path
        pre = W.state(pv)
        snap = snapshot_state(pre)
        cb = W.env.coinbase(W.h, [dt.Output(reward, W.keys[3])], tok(TX, 20))
        t1id, t2id = tok(TX, 21), tok(TX, 22)
        if shape == "1in":
            ins_all = [[(c, idx, kind)]]
            txs = [W.make_tx(t1id, ins_all[0], [(ov0, 1)], pv, cb.hash(), None)]
        elif shape == "2in":
            ins_all = [[(0, 0, 0), (c, idx, kind)]]
            txs = [W.make_tx(t1id, ins_all[0], [(ov0, 1), (ov1, 2)], pv, cb.hash(), None)]
        elif shape == "2in-first":
            # the adversarial input comes FIRST; the valid one that follows spends another output of the SAME earlier
            # transaction where possible ((T10,1), owner K1), else (T10,0)
            ins_all = [[(c, idx, kind), (1, 1, 0) if c != 1 else (0, 0, 0)]]
            txs = [W.make_tx(t1id, ins_all[0], [(ov0, 1), (ov1, 2)], pv, cb.hash(), None)]
        else:
            ins_all = [[(0, 0, 0)], [(c, idx, kind)]]
            txs = [W.make_tx(t1id, ins_all[0], [(ov0, 1)], pv, cb.hash(), None),
                   W.make_tx(t2id, ins_all[1], [(ov1, 2)], pv, cb.hash(), t1id)]
        block = W.candidate(pre, [cb] + txs, ts)
        # history: where the adversary re-uses a signature made for a different transaction (kinds 2, 3), the node has
        # validated that originally signed transaction before (its verdict is irrelevant here) - a validator that remembers
        # anything about earlier signatures must not be fooled by it.
        for (orefs, oouts, pos, sig) in list(W.last_originals):
            if len(orefs) == 1:
                otx = dt.Transaction([dt.Input(orefs[0], sig)], oouts, cached_hash=tok(TX, 23))
                try:
                    pre.add_block(W.candidate(pre, [cb, otx], ts, bid=tok(BLK, 6)), now)
                except Exception:
                    pass
        try:
            post = pre.add_block(block, now)
            accepted = True
        except Exception:
            post = None
            accepted = False
        # the pre-state value is never changed, accepted or not
        if not same_snapshot(snapshot_state(pre), snap):
            return False
        if twin:
            return not accepted if c <= 3 else accepted
        if not accepted:
            return True
        # accepted: the stated conditions must hold
        refs = [i.output_reference for t in txs for i in t.inputs]
        kinds = [k for ins in ins_all for (_, _, k) in ins]
        for r in refs:
            if W.owner_of(r, pv) is None:
                return False
        for a in range(len(refs)):
            for b in range(a + 1, len(refs)):
                if refs[a].hash == refs[b].hash and refs[a].index == refs[b].index:
                    return False
        for k in kinds:
            if k != 0:
                return False
        # and the block is in the returned state, built on the parent's ledger
        if post.block_by_hash[block.hash()] is not block:
            return False
        return True

    def wit(d: Draw):
        return _build(W, shape, c, d)
    w = witness(wit)
    return check_spend, {"vs": w}


def frame(twin: bool = False, real: bool = False):
    """Validation of a block on P reads the unspent map at P's id only - never the head's (F) or another fork's."""
    W = World(real=real, served_head="F")
    dt = W.dt
    from symlib.world import ReadLog

    def check_frame(v0: int, v1: int, idx: int, ov: int) -> bool:
        """
        post: _
        """
        if not (1 <= v0 <= 10 ** 15 and 1 <= v1 <= 10 ** 15 and 0 <= idx <= 1 and 0 <= ov <= 10 ** 15):
            return True
        if not real:
            W._install_crypto()
        pv = [v0, v1, 3, 4]
        pre = W.state(pv)
        log: List[Any] = []
        pre.unspent_transaction_outs_by_hash = ReadLog(pre.unspent_transaction_outs_by_hash, log)
        cb = W.env.coinbase(W.h, [dt.Output(1, W.keys[3])], tok(TX, 20))
        tx = W.make_tx(tok(TX, 21), [(0, idx, 0)], [(ov, 1)], pv, cb.hash(), None)
        block = W.candidate(pre, [cb, tx], 3000)
        del log[:]
        try:
            W.cons.validate_block_by_itself(block, 3000)
            W.cons.validate_block_in_coinstate(block, pre)
            accepted = True
        except Exception:
            accepted = False
        if twin:
            return not accepted
        for k in log:
            if k != W.P.hash():
                return False
        own = W.owner_of(tx.inputs[0].output_reference, pv)
        return accepted == (own is not None and 0 < ov <= own[1])

    return check_frame, {"v0": 5, "v1": 5, "idx": 0, "ov": 5}


def signed_message(nin_a: int, nout_a: int, nin_b: int, nout_b: int, twin: bool = False, real: bool = False):
    """Equal signable serializations => equal reference lists and equal output lists (fieldwise)."""
    W = World(real=real)
    dt, sg = W.dt, W.sg

    def build(d: Draw, nin: int, nout: int):
        ins = [dt.Input(dt.OutputReference(d.blob(32, sym=2), d.u32()), sg.SECP256k1Signature(bytes([7]) * 64)) for _ in range(nin)]
        outs = [dt.Output(d.rng(0, 0xFFFF) * 256 ** 3, sg.SECP256k1PublicKey(d.blob(64, sym=2))) for _ in range(nout)]
        return dt.Transaction(ins, outs)

    def both(d: Draw):
        return build(d, nin_a, nout_a), build(d, nin_b, nout_b)
    N = count_draws(both)

    def check_signed_message(vs: List[int]) -> bool:
        """
        post: _
        """
        if len(vs) != N:
            return True
        try:
            a, b = both(Draw(vs))
        except Assume:
            return True
        ma = a.signable_equivalent().serialize()
        mb = b.signable_equivalent().serialize()
        if twin:
            return not (ma == mb)
        if ma != mb:
            return True
        if len(a.inputs) != len(b.inputs) or len(a.outputs) != len(b.outputs):
            return False
        for x, y in zip(a.inputs, b.inputs):
            if x.output_reference.hash != y.output_reference.hash or x.output_reference.index != y.output_reference.index:
                return False
        for x, y in zip(a.outputs, b.outputs):
            if x.value != y.value or x.public_key.public_key != y.public_key.public_key:
                return False
        return True

    return check_signed_message, {"vs": witness(both)}


def relayed(kind: str, served_head: str = "P", twin: bool = False, real: bool = False):
    """The other entry to full validation named in the statement: a block relayed by a peer above the horizon, delivered to
    the real handle_block_received (harness of C09). A block with an unauthorised spend must not enter the chain state,
    whether or not it would become the head."""
    from harness import c09_relay
    return c09_relay.delivery(c09_relay.KINDS.index(kind), served_head=served_head, twin=twin, real=real)


def obligations(tier: str, known: List[str]) -> List[Ob]:
    thorough = tier == "thorough"
    obs: List[Ob] = []
    T = 1500 if thorough else 600
    for kind in ("wrong-signature", "wrong-signature-on-side-branch", "apply-error-missing-output", "stated-height-without-ancestors"):
        obs.append(Ob("relayed-block[%s]" % kind, C_A + "; " + C_R, "relayed", {"kind": kind}, timeout=T))
    for shape in SHAPES:
        for c in range(10):
            if not thorough and shape == "2in" and c in (2, 3, 6):
                continue
            if not thorough and shape == "2in-first" and c not in (0, 1, 4, 5):
                continue
            obs.append(Ob("spend[%s,ref=%s]" % (shape, POOL_NAMES[c]), C_A + "; " + C_R, "spend", {"shape": shape, "c": c}, timeout=T))
    # the same with the sibling fork as the served head (validation must still use the parent's state)
    for c in ((0, 4, 5) if not thorough else range(10)):
        obs.append(Ob("spend[1in,ref=%s,head=other-fork]" % POOL_NAMES[c], C_A + "; " + C_F, "spend",
                      {"shape": "1in", "c": c, "served_head": "F"}, timeout=T))
    obs.append(twin_of([o for o in obs if o.name == "spend[1in,ref=unspent-a]"][0], timeout=300))
    obs.append(twin_of([o for o in obs if o.name == "spend[2tx,ref=other-fork]"][0], timeout=300))
    obs.append(Ob("frame[parent-map-only]", C_F, "frame", {}, timeout=T))
    obs.append(twin_of(obs[-1]))
    for (a, b, c, d) in ((1, 1, 1, 1), (2, 1, 2, 1), (1, 2, 1, 2), (1, 1, 2, 1), (1, 1, 1, 2), (2, 2, 2, 2), (2, 1, 1, 2)):
        obs.append(Ob("signed-message[%din%dout vs %din%dout]" % (a, b, c, d), C_D, "signed_message",
                      {"nin_a": a, "nout_a": b, "nin_b": c, "nout_b": d}, timeout=T))
    obs.append(twin_of([o for o in obs if o.name.startswith("signed-message[1in1out vs 1in1out")][0]))
    return obs


def replay(ob: Ob, model):
    return generic_replay(sys.modules[__name__], ob, model)

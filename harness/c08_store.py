"""C08 - persistence fidelity: the block store returns what was written.

The repository's BlockStore (schema, write_blocks_to_disk, flush_blocks_to_disk, load_*,
read_blocks_from_disk) and the read_chain_from_disk loop run unmodified on a relational stand-in
for sqlite3 whose schema is parsed from the repository's own CREATE TABLE text. Case split: the
parent vector of a tree of <= 3 (thorough 4) blocks above the built-in genesis block and the batching
of writes into flushes; symbolic: every block's reward (miner key choice, value, data byte), whether
it includes the pending transaction, the order SQLite returns rows of equal height. Transaction ids
are the oracle's images of the serialized bytes, so whether two blocks contain a transaction with
the same id is found by the solver, not enumerated.
Oracle after each flush: blocks read == blocks written (ids, byte-identical encodings, transaction
ids), every parent before its children, and the CoinState rebuilt by the real read_chain_from_disk
has the same unspent map at every block and a head of the same height as the in-memory state.
The stand-in is validated against the real sqlite3 on concrete scenarios in every run.
"""
from __future__ import annotations

import itertools
import os
import sys
import time
from typing import Any, Dict, List, Optional, Tuple

from symlib.runner import Ob
from symlib.common import generic_replay, twin_of
from symlib.world import Env, tok, TX, BLK, ZERO32

META = {
    "explanation": "BlockStore write/flush/read and read_chain_from_disk executed for symbolic block contents on a relational model of SQLite "
                   "(schema parsed from the repository's DDL); read-back blocks and the rebuilt ledger are compared with what was written.",
    "technique": "CrossHair symbolic execution of the block store on a relational stub (schema from the repo's CREATE TABLE text), differential validation against real sqlite3",
    "bounds": "<= 3 blocks above genesis (thorough: all 3-block trees with all batchings, four 4-block trees), reward + <= 1 spend (<= 2 inputs) per block, two orders for rows of equal height, one block written a second time",
    "outside": "SQLite itself (journalling, file corruption, concurrent connections); larger trees",
    "stubs": ["relational stand-in for sqlite3 (symlib/stubs/relstore.py)", "LRO hash oracle for transaction ids", "PyBytesIO"],
    "assumptions": ["the stand-in equals SQLite for the statements the store issues (validated per run on concrete scenarios; replays use real SQLite)"],
}

C_1 = "reading the store back yields exactly the written blocks with the same ids and byte-identical content, each parent before its children"
C_2 = "a restarted node rebuilds the same ledger state at every block and a head of the same height"

KEY_F2 = "C08/shared-transaction-id-across-blocks"


def _env(real: bool):
    env = Env(real=real, networking=True, horizon_off=False)
    import skepticoin.blockstore as bs
    import skepticoin.scripts.utils as su
    import skepticoin.genesis as gen
    if real:
        import importlib
        import skepticoin.hash as hmod
        importlib.reload(hmod)
        from symlib.stubs.oracles import install_hashes
        install_hashes(hmod.sha256d, hmod.blake2, hmod.scrypt)
        from symlib.stubs import relstore
        relstore.uninstall()
        import io
        env.sg.__dict__.get("ecdsa")
    else:
        from symlib.stubs.oracles import LRO, install_hashes
        install_hashes(LRO(0x07), None, None)
    return env, bs, su, gen


def _new_store(env: Env, bs, real: bool, scratch: Optional[str] = None):
    if real:
        import tempfile
        d = scratch or tempfile.mkdtemp(prefix="c08-")
        return bs.BlockStore(os.path.join(d, "chain.db")), d
    from symlib.stubs import relstore
    fake = relstore.install()
    return bs.BlockStore("chain.db"), fake


def _build_blocks(env: Env, gen, parents: Tuple[int, ...], keys: List[int], vals: List[int], datas: List[int], incl: List[int]):
    """Block i+1 has parent index parents[i] (0 = genesis). incl[i]: 0 reward only, 1 the pending transaction T (spends the
    genesis output), 2 a DIFFERENT transaction T2 spending the same output, 3 a spend of the parent's reward output, 4 a
    two-input spend of both outputs of T in descending index order.
    Returns (genesis, blocks, heights)."""
    dt, sg = env.dt, env.sg
    g = dt.Block.deserialize(gen.genesis_block_data)
    K = [sg.SECP256k1PublicKey(bytes([0xC0 + i]) * 64) for i in range(2)]
    gcb = g.transactions[0]
    sigA, sigB = sg.SECP256k1Signature(bytes([0x55]) * 64), sg.SECP256k1Signature(bytes([0x56]) * 64)
    pending = dt.Transaction([dt.Input(dt.OutputReference(gcb.hash(), 0), sigA)], [dt.Output(400, K[0]), dt.Output(600, K[1])])
    pending2 = dt.Transaction([dt.Input(dt.OutputReference(gcb.hash(), 0), sigB)], [dt.Output(1000, K[1])])
    all_blocks = [g]
    heights = [0]
    for i, p in enumerate(parents):
        par = all_blocks[p]
        h = heights[p] + 1
        cb = dt.Transaction([dt.Input(dt.OutputReference(ZERO32, datas[i]), sg.CoinbaseData(h, b"\x00"))], [dt.Output(vals[i], K[keys[i]])])
        txs = [cb]
        if incl[i] == 1:
            txs.append(pending)
        elif incl[i] == 2:
            txs.append(pending2)
        elif incl[i] == 4:
            # both outputs of the pending transaction, in DESCENDING index order (input position != output index)
            txs.append(dt.Transaction([dt.Input(dt.OutputReference(pending.hash(), 1), sigB), dt.Input(dt.OutputReference(pending.hash(), 0), sigA)],
                                      [dt.Output(1000, K[1])]))
        elif incl[i] == 3:
            pcb = par.transactions[0]
            txs.append(dt.Transaction([dt.Input(dt.OutputReference(pcb.hash(), 0), sigA)], [dt.Output(pcb.outputs[0].value, K[0])]))
        b = env.block(h, par.hash(), txs, tok(BLK, 40 + i), ts=par.timestamp + 10 + i, target=g.target, merkle=bytes([0x3E, i]) * 16)
        all_blocks.append(b)
        heights.append(h)
    return g, all_blocks[1:], heights, pending


def _valid_history(parents: Tuple[int, ...], incl: List[int]) -> bool:
    """each output is spent at most once along every chain; the parent's reward can be spent only above genesis"""
    n = len(parents)
    for i in range(n):
        if incl[i] in (1, 2):
            p = parents[i]
            while p != 0:
                if incl[p - 1] in (1, 2):
                    return False
                p = parents[p - 1]
        if incl[i] == 3 and parents[i] == 0:
            return False
        if incl[i] == 4:
            # needs the pending transaction in an ancestor and no other spend of its outputs on the way
            p, found = parents[i], False
            while p != 0:
                if incl[p - 1] == 4:
                    return False
                if incl[p - 1] == 1:
                    found = True
                p = parents[p - 1]
            if not found:
                return False
    # the parent's reward is spent at most once per chain: two children may both spend it (different forks), fine
    return True


def store_roundtrip(parents: Tuple[int, ...], flush_mask: int, sym: Tuple[int, ...] = (0, 1, 2, 3), spends: Optional[Tuple[int, ...]] = None,
                    exclude_known: bool = True, only_known: bool = False, rewrite: Optional[int] = None, ids_descending: bool = False,
                    twin: bool = False, real: bool = False):
    """rewrite: index of a block that is buffered and flushed a second time at the end.
    sym: indices of the blocks whose reward (key, value) and pending-transaction inclusion are symbolic; the others get
    concrete, pairwise different rewards and do not include the pending transaction."""
    env, bs, su, gen = _env(real)
    n = len(parents)

    def check_store(k0: int, k1: int, k2: int, k3: int, v0: int, v1: int, v2: int, v3: int, d0: int, d1: int, d2: int, d3: int,
                    i0: int, i1: int, i2: int, i3: int, ties_reversed: bool) -> bool:
        """
        post: _
        """
        keys, vals, datas, incl = [k0, k1, k2, k3][:n], [v0, v1, v2, v3][:n], [d0, d1, d2, d3][:n], [i0, i1, i2, i3][:n]
        for u in [k0, k1, k2, k3][n:] + [v0, v1, v2, v3][n:] + [d0, d1, d2, d3][n:]:
            if u != 0:
                return True
        for u in [i0, i1, i2, i3][n:]:
            if u != 0:
                return True
        for u in incl:
            if not (0 <= u <= 4):
                return True
        if spends is not None and list(incl) != list(spends):
            return True          # which extra transaction each block carries is a case split of this instance
        for i, (k, v, d) in enumerate(zip(keys, vals, datas)):
            if not (0 <= k <= 1 and 0 <= v <= 2 * 10 ** 9 and 0 <= d <= 2):
                return True         # a reward output may carry the value 0 (the rules bound only the total)
            if i not in sym and not (k == i % 2 and v == 100 + i and d == 0 and (spends is not None or incl[i] == 0)):
                return True
        if not _valid_history(parents, incl):
            return True          # not a valid history (an output spent twice along one chain)
        if not real:
            from symlib.stubs.oracles import LRO, install_hashes
            install_hashes(LRO(0x07, descending=ids_descending), None, None)
        g, blocks, heights, pending = _build_blocks(env, gen, parents, keys, vals, datas, incl)
        # the listed finding's input class: two stored blocks contain a transaction with the same id
        txids: List[Tuple[int, bytes]] = []
        for i, b in enumerate(blocks):
            for t in b.transactions:
                txids.append((i, t.hash()))
        shared = False
        for a in range(len(txids)):
            for c in range(a + 1, len(txids)):
                if txids[a][0] != txids[c][0] and txids[a][1] == txids[c][1]:
                    shared = True
        if exclude_known and shared:
            return True
        if only_known and not shared:
            return True
        store, handle = _new_store(env, bs, real)

        def readback_ok(flushed: List[Any]) -> bool:
            got = list(store.read_blocks_from_disk())
            if twin:
                return True
            if len(got) != len(flushed):
                return False
            seen: List[bytes] = []
            for rb in got:
                match = [w for w in flushed if w.hash() == rb.hash()]
                if len(match) != 1:
                    return False
                w = match[0]
                if rb.serialize() != w.serialize():
                    return False
                if [t.hash() for t in rb.transactions] != [t.hash() for t in w.transactions]:
                    return False
                if rb.previous_block_hash != ZERO32 and rb.previous_block_hash not in seen:
                    return False          # a parent must come before its children
                seen.append(rb.hash())
            # a restart: the real read_chain_from_disk loop on this store
            saved_inst = bs.DefaultBlockStore.instance
            saved_print = getattr(su, "print", None)
            su.print = lambda *a, **k: None
            su.os = _NoFiles
            bs.DefaultBlockStore.instance = store
            try:
                rebuilt = su.read_chain_from_disk()
            finally:
                bs.DefaultBlockStore.instance = saved_inst
                su.os = os
                if saved_print is None:
                    del su.print
                else:
                    su.print = saved_print
            # compare with the in-memory state restricted to the flushed blocks
            ref = env.cstate.CoinState.empty()
            for w in flushed:
                ref = ref.add_block_no_validation(w)
            if rebuilt.head().height != ref.head().height:
                return False
            for w in flushed:
                if w.hash() not in rebuilt.unspent_transaction_outs_by_hash:
                    return False
                ua = sorted(((k.hash, k.index), o.value, o.public_key.public_key) for (k, o) in
                            rebuilt.unspent_transaction_outs_by_hash[w.hash()].items())
                ub = sorted(((k.hash, k.index), o.value, o.public_key.public_key) for (k, o) in
                            ref.unspent_transaction_outs_by_hash[w.hash()].items())
                if ua != ub:
                    return False
            return True

        try:
            if not real:
                db = handle.dbs["chain.db"]
                if ties_reversed:
                    db.tie_order = lambda rows: list(reversed(rows))
            mem = env.cstate.CoinState.empty().add_block_no_validation(g)
            written = [g]
            for i, b in enumerate(blocks):
                mem = mem.add_block_no_validation(b)
                store.add_block_to_buffer(b)
                written.append(b)
                last = (i == n - 1)
                if last or (flush_mask >> i) & 1:
                    store.flush_blocks_to_disk()
                    if len(store.write_buffer) != 0:
                        return False
                    if not readback_ok(list(written)):
                        return False
            if rewrite is not None and not twin:
                # the same block reaches the store again after its children were flushed (a second process on the same file,
                # a re-buffered block): nothing may change
                store.add_block_to_buffer(blocks[rewrite])
                store.flush_blocks_to_disk()
                if not readback_ok(list(written)):
                    return False
            return not twin
        finally:
            if real:
                try:
                    store.close()
                except Exception:
                    pass
                import shutil
                shutil.rmtree(handle, ignore_errors=True)

    w = {"k0": 0, "k1": 1, "k2": 0, "k3": 1, "v0": 100, "v1": 101, "v2": 102, "v3": 103, "d0": 0, "d1": 0, "d2": 0, "d3": 0,
         "i0": 0, "i1": 0, "i2": 0, "i3": 0, "ties_reversed": False}
    for j in range(4):
        if j >= n:
            w["k%d" % j] = 0
            w["v%d" % j] = 0
        elif spends is not None:
            w["i%d" % j] = spends[j]
    if only_known:
        w["k1"], w["v1"] = w["k0"], w["v0"]
    return check_store, w


def concurrent_add(twin: bool = False, real: bool = False):
    """A block handed to the store by another thread while a flush is writing (modelled: the add is executed inside the write
    whenever the store's lock is free at that moment, otherwise right after the flush) is written by the next flush."""
    env, bs, su, gen = _env(real)

    def check_concurrent_add(v0: int, v1: int) -> bool:
        """
        post: _
        """
        if not (1 <= v0 <= 2 * 10 ** 9 and 1 <= v1 <= 2 * 10 ** 9):
            return True
        if not real:
            from symlib.stubs.oracles import LRO, install_hashes
            install_hashes(LRO(0x07), None, None)
        g, blocks, heights, pending = _build_blocks(env, gen, (0, 1), [0, 1], [v0, v1], [0, 0], [0, 0])
        store, handle = _new_store(env, bs, real)
        try:
            fired: List[int] = []
            real_write = store.write_blocks_to_disk

            def write_then_other_thread(bl):
                real_write(bl)
                if not fired and not store.lock.locked():
                    fired.append(1)
                    store.add_block_to_buffer(blocks[1])
            store.write_blocks_to_disk = write_then_other_thread
            store.add_block_to_buffer(blocks[0])
            store.flush_blocks_to_disk()
            if not fired:
                store.add_block_to_buffer(blocks[1])      # the other thread was blocked until the flush finished
            store.write_blocks_to_disk = real_write
            store.flush_blocks_to_disk()
            if twin:
                return False
            ids = [b.hash() for b in store.read_blocks_from_disk()]
            return blocks[0].hash() in ids and blocks[1].hash() in ids and len(store.write_buffer) == 0
        finally:
            if real:
                try:
                    store.close()
                except Exception:
                    pass
                import shutil
                shutil.rmtree(handle, ignore_errors=True)

    return check_concurrent_add, {"v0": 5, "v1": 6}


class _NoFiles:
    class path:
        @staticmethod
        def isfile(p: str) -> bool:
            return False

        @staticmethod
        def isdir(p: str) -> bool:
            return False


def stub_vs_sqlite():
    """Differential validation of the relational stand-in: concrete scenarios (incl. failing ones) through the
    unmodified BlockStore on the stand-in and on the real sqlite3; table contents, exceptions and read-back must agree."""
    import tempfile
    import shutil
    t0 = time.time()
    scenarios = []
    for parents in ((0,), (0, 1), (0, 0), (0, 1, 1), (0, 0, 1), (0, 1, 2)):
        n = len(parents)
        for mask in range(2 ** (n - 1)):
            scenarios.append(("tree", parents, mask, [0, 1, 0][:n], [5, 6, 7][:n], [0, 0, 0][:n], [0] * n))
            scenarios.append(("tree-spends", parents, mask, [0, 1, 0][:n], [5, 6, 7][:n], [0, 0, 0][:n], [1, 3, 3][:n]))
    scenarios.append(("shared-reward", (0, 0), 0, [0, 0], [5, 5], [0, 0], [0, 0]))
    scenarios.append(("shared-pending", (0, 0), 1, [0, 1], [5, 6], [0, 0], [1, 1]))
    scenarios.append(("conflicting-spends-on-forks", (0, 0), 1, [0, 1], [5, 6], [0, 0], [1, 2]))
    scenarios.append(("orphan-fk", None, 0, None, None, None, None))
    scenarios.append(("sql-replace", (0, 1), 1, [0, 1], [5, 6], [0, 0], [0, 3]))
    scenarios.append(("sql-replace", (0, 1, 2), 3, [0, 1, 0], [5, 6, 7], [0, 0, 0], [1, 4, 0]))
    scenarios.append(("tree-two-inputs", (0, 1, 2), 1, [0, 1, 0], [5, 6, 7], [0, 0, 0], [1, 0, 4]))
    mismatches: List[str] = []

    def dump(store, bs) -> Any:
        out = {}
        for t in ("chain", "transaction_locator", "transaction_inputs", "transaction_outputs"):
            out[t] = [tuple(r) for r in store.sql("select * from %s" % t)] if hasattr(store.connection, "execute") else None
        return out

    def run(real: bool, sc) -> Any:
        env, bs, su, gen = _env(real)
        if real:
            import importlib
            import skepticoin.hash as hmod
            importlib.reload(hmod)
        else:
            import importlib
            import skepticoin.hash as hmod
            importlib.reload(hmod)
            from symlib.stubs.oracles import install_hashes
            install_hashes(hmod.sha256d, None, None)       # same (real) transaction ids on both sides
        store, handle = _new_store(env, bs, real)
        events = []
        try:
            kind, parents, mask, keys, vals, datas, incl = sc
            if kind == "orphan-fk":
                g = env.dt.Block.deserialize(gen.genesis_block_data)
                orphan = env.block(5, tok(BLK, 99), [env.coinbase(5, [env.dt.Output(1, env.sg.SECP256k1PublicKey(b"\xc1" * 64))], None)], tok(BLK, 41))
                child = env.block(1, g.hash(), [env.coinbase(1, [env.dt.Output(2, env.sg.SECP256k1PublicKey(b"\xc1" * 64))], None)], tok(BLK, 42))
                for b in (orphan, child):
                    store.add_block_to_buffer(b)
                    try:
                        store.flush_blocks_to_disk()
                        events.append("ok")
                    except Exception as e:  # noqa
                        events.append(type(e).__name__)
            else:
                g, blocks, heights, pending = _build_blocks(env, gen, parents, keys, vals, datas, incl)
                for i, b in enumerate(blocks):
                    store.add_block_to_buffer(b)
                    if i == len(blocks) - 1 or (mask >> i) & 1:
                        try:
                            store.flush_blocks_to_disk()
                            events.append("ok")
                        except Exception as e:  # noqa
                            events.append(type(e).__name__)
            if kind == "sql-replace":
                # the statements a changed store could issue: REPLACE of a row that has children, plain INSERT of a duplicate
                for (t, pos, stmt) in (("chain", 1, "insert or replace into chain values (?,?,?,?,?,?,?,?,?,?,?)"),
                                       ("transaction_locator", 1, "insert or replace into transaction_locator values (?,?)"),
                                       ("transaction_outputs", 0, "insert or replace into transaction_outputs values (?,?,?,?)"),
                                       ("chain", 2, "insert into chain values (?,?,?,?,?,?,?,?,?,?,?)")):
                    row = [tuple(r) for r in store.sql("select * from %s" % t)][pos]
                    cur = store.connection.cursor()
                    try:
                        cur.execute(stmt, row)
                        events.append("ok")
                    except Exception as e:  # noqa
                        events.append(type(e).__name__)
                    cur.close()
            if kind == "sql-replace":
                cur = store.connection.cursor()
                cur.execute("CREATE TABLE probe (a int CHECK (a > 0), b blob, c int CHECK (c <= 5), PRIMARY KEY(b))")
                for (stmt, row) in (("insert or ignore into probe values (?,?,?)", (1, b"k1", 5)), ("insert or ignore into probe values (?,?,?)", (0, b"k2", 1)),
                                    ("insert into probe values (?,?,?)", (2, b"k3", 6)), ("insert or replace into probe values (?,?,?)", (0, b"k1", 1)),
                                    ("insert or ignore into probe values (?,?,?)", (None, b"k0", 2)), ("insert or ignore into probe values (?,?,?)", (7, b"k9", 2)),
                                    ("insert or ignore into probe values (?,?,?)", (7, b"k5", 1))):
                    try:
                        cur.execute(stmt, row)
                        events.append("ok")
                    except Exception as e:  # noqa
                        events.append(type(e).__name__)
                events.append([tuple(r) for r in store.sql("select a, b, c from probe order by a, c")])
                events.append([tuple(r) for r in store.sql("select block_hash from transaction_locator order by block_hash, transaction_hash")])
                cur.close()
            tables = {}
            for t in ("chain", "transaction_locator", "transaction_inputs", "transaction_outputs"):
                tables[t] = [tuple(r) for r in store.sql("select * from %s" % t)]
            try:
                back = [(b.hash(), b.serialize()) for b in store.read_blocks_from_disk()]
            except Exception as e:  # noqa
                back = type(e).__name__
            return events, tables, back
        finally:
            if real:
                try:
                    store.close()
                except Exception:
                    pass
                shutil.rmtree(handle, ignore_errors=True)

    for sc in scenarios:
        a = run(False, sc)
        b = run(True, sc)
        if a != b:
            mismatches.append("%s %s mask=%s" % (sc[0], sc[1], sc[2]))
    from symlib.stubs import relstore
    relstore.uninstall()
    return {"status": "confirmed" if not mismatches else "error",
            "detail": ("stand-in and sqlite3 agree on %d scenarios (rows of all four tables, exceptions, read-back)" % len(scenarios))
            if not mismatches else "stand-in disagrees with sqlite3 on: " + "; ".join(mismatches),
            "queries": len(scenarios), "solver_s": 0.0, "wall": time.time() - t0, "non_solver_anchor": True,
            "functions": ["skepticoin.blockstore:BlockStore.__init__", "skepticoin.blockstore:BlockStore.write_blocks_to_disk",
                          "skepticoin.blockstore:BlockStore.read_blocks_from_disk"]}


def obligations(tier: str, known: List[str]) -> List[Ob]:
    thorough = tier == "thorough"
    T = 1800 if thorough else 900
    excl = KEY_F2 in known
    obs: List[Ob] = [Ob("relational-stand-in == sqlite3", C_1, "stub_vs_sqlite", {}, kind="anchor", timeout=600)]
    PATTERNS = {
        (0,): [(0,), (1,)],
        (0, 1): [(0, 0), (1, 0), (0, 3), (1, 3), (1, 4)],
        (0, 0): [(0, 0), (1, 2), (1, 0)],
        (0, 1, 2): [(1, 3, 3), (0, 3, 0), (1, 0, 4)],
        (0, 0, 1): [(1, 2, 3), (0, 0, 3)],
        (0, 1, 1): [(0, 1, 2), (0, 3, 3)],
        (0, 0, 0): [(1, 2, 0)],
        (0, 1, 0): [(1, 3, 2)],
        (0, 0, 2): [(1, 2, 3)],
    }
    for n in ((1, 2, 3, 4) if thorough else (1, 2, 3)):
        for parents in itertools.product(*[range(0, i + 1) for i in range(n)]):
            parents = tuple(parents)
            hs = [0]
            for p in parents:
                hs.append(hs[p] + 1)
            pair = None
            for a in range(n):
                for b in range(a + 1, n):
                    if hs[a + 1] == hs[b + 1] and pair is None:
                        pair = (a, b)
            sym = pair if pair is not None else tuple(range(max(0, n - 2), n))
            if not thorough and n == 3 and parents not in ((0, 0, 1), (0, 1, 2), (0, 1, 1)):
                continue
            if n == 4 and parents not in ((0, 1, 2, 3), (0, 1, 1, 3), (0, 0, 2, 2), (0, 1, 2, 2)):
                continue        # 4-block trees cost up to 30 min each: four representative shapes
            pats = PATTERNS.get(parents, [tuple([0] * n), tuple([1] + [3] * (n - 1)) if parents[1:] and all(p > 0 for p in parents[1:]) else tuple([0] * n)])
            masks = range(2 ** (n - 1)) if ((thorough and n <= 3) or n <= 2) else ((0, 2 ** (n - 1) - 1) if n == 3 else (0,))
            for sp in dict.fromkeys(pats):
                if not _valid_history(parents, list(sp)):
                    continue
                for mask in masks:
                    obs.append(Ob("roundtrip[parents=%s,extra-tx=%s,flush=%s,symbolic-rewards=%s]" % (
                        "".join(map(str, parents)), "".join(map(str, sp)), format(mask, "0%db" % max(1, n - 1)), "".join(map(str, sym))),
                        C_1 + "; " + C_2, "store_roundtrip",
                        {"parents": parents, "flush_mask": mask, "sym": tuple(sym), "spends": tuple(sp), "exclude_known": excl}, timeout=T))
    for (parents, sp, mask, rw) in (((0, 1), (0, 3), 1, 0), ((0, 1, 2), (1, 3, 0), 3, 1), ((0, 0, 1), (0, 0, 3), 0, 0)):
        if not thorough and parents == (0, 0, 1):
            continue
        obs.append(Ob("block-written-again-after-its-child[parents=%s,extra-tx=%s,flush=%s,again=%d]" % (
            "".join(map(str, parents)), "".join(map(str, sp)), format(mask, "0%db" % (len(parents) - 1)), rw), C_1 + "; " + C_2, "store_roundtrip",
            {"parents": parents, "flush_mask": mask, "sym": tuple(range(len(parents)))[(-2 if thorough else -1):], "spends": sp, "exclude_known": excl, "rewrite": rw}, timeout=T))
    # the byte order of transaction ids relative to their position in the block is arbitrary: the same with ids handed out in
    # descending order (real mode: real hashes)
    for (parents, sp, mask) in (((0, 1), (1, 3), 1), ((0, 0), (1, 2), 0)):
        obs.append(Ob("roundtrip[parents=%s,extra-tx=%s,flush=%s,ids-descending]" % ("".join(map(str, parents)), "".join(map(str, sp)), mask),
                      C_1 + "; " + C_2, "store_roundtrip", {"parents": parents, "flush_mask": mask, "sym": (1,), "spends": sp,
                                                            "exclude_known": excl, "ids_descending": True}, timeout=T))
    obs.append(twin_of([o for o in obs if o.name.startswith("roundtrip[parents=00,")][0], timeout=300))
    obs.append(Ob("block-added-while-a-flush-is-writing", C_1, "concurrent_add", {}, timeout=T))
    obs.append(Ob("finding[shared-transaction-id]", C_1, "store_roundtrip",
                  {"parents": (0, 0), "flush_mask": 0, "sym": (0, 1), "spends": (0, 0), "exclude_known": False, "only_known": True},
                  expect="refuted", role="finding", finding_key=KEY_F2, timeout=600))
    return obs


def _classify(ob: Ob, model, detail: str):
    return KEY_F2 if ob.params.get("only_known") else None


def replay(ob: Ob, model):
    if ob.kind == "anchor":
        out = stub_vs_sqlite()
        return {"reproduced": out["status"] != "confirmed", "detail": out["detail"], "key": None}
    return generic_replay(sys.modules[__name__], ob, model, classify=_classify)

"""C13 - the pending-transaction pool holds only valid, mutually compatible transactions.

Inv: every pool transaction passes by-itself and at-head validation, references pairwise disjoint.
Steps on the real ChainManager (node shell, SymBlock world), each from an Inv state:
 1 submit: a symbolic transaction (reference pool choice x free index x signature kind x value) to a
   pool of 0..2 members; admitted => valid at the head and disjoint from the pool; Inv afterwards;
   an escaping exception counts as "not admitted" and must leave the pool unchanged.
 2 head change: set_coinstate to (extension mining a member | extension mining a conflicting
   transaction | switch to the sibling fork whose tip is reward-only | back again); afterwards the
   pool is exactly the members valid at the new head.
 3 a head change arriving from another thread while a submission is being validated (modelled as a
   synchronous set_coinstate at the validation point whenever the manager's lock is free).
 4 relay: handle_transaction_received relays only a transaction that was absent and got admitted.
"""
from __future__ import annotations

import sys
from typing import Any, List, Optional

from symlib.runner import Ob
from symlib.common import generic_replay, twin_of
from symlib.symblock import World, POOL_NAMES, MAX_SASHIMI
from symlib.world import tok, TX, BLK

META = {
    "explanation": "ChainManager.add_transaction_to_pool / set_coinstate / _cleanup_transaction_pool_for_coinstate / "
                   "handle_transaction_received executed from pool states satisfying the invariant, with the submitted transaction and "
                   "the new head symbolic; the pool afterwards is compared with a reference validity predicate at the new head.",
    "technique": "CrossHair symbolic execution of the pool operations (one step from an arbitrary invariant state)",
    "bounds": "pool <= 2 members, submitted transaction with 1 input and 1 output, four kinds of head change",
    "outside": "real thread schedules (one interleaving point is modelled synchronously); larger pools (checks are per member / per pair)",
    "stubs": ["node shell", "stubs as C01"],
    "assumptions": ["Inv holds in the pre-state (established by steps 1 and 2 themselves)"],
}

C_ADM = "a transaction that is invalid at the head or conflicts with a pending one is never admitted"
C_INV = "at every moment each pending transaction is valid at the current head and no two spend the same output"
C_EVICT = "after any head change no-longer-valid transactions are evicted while still valid ones remain"
C_RELAY = "a transaction is relayed only when it was new and admitted"


def _setup(real: bool, served_head: str = "P"):
    W = World(real=real, networking=True, served_head=served_head)
    from symlib import nodeshell
    return W, nodeshell


def _older_state(W: World, state: Any) -> Any:
    """An earlier validated state of the node: the same blocks with the other tip as head. The node keeps one as its roll-back
    point (last_known_valid_coinstate); nothing about admission may be judged against it."""
    other = W.F if state.current_chain_hash == W.P.hash() else W.P
    return W.env.cstate.CoinState(state.block_by_hash, state.unspent_transaction_outs_by_hash, state.block_by_height_by_hash,
                                  state.heads, other.hash())


def _valid_at(W: World, state: Any, head_hash: bytes, tx: Any, kinds: List[int]) -> bool:
    """Reference validity of a 1-input pool transaction at a head: output unspent there, owner's signature, value rules."""
    u = state.unspent_transaction_outs_by_hash[head_hash]
    tin = 0
    for i in tx.inputs:
        found = None
        for (k, o) in u.items():
            if k.hash == i.output_reference.hash and k.index == i.output_reference.index:
                found = o
        if found is None:
            return False
        tin += found.value
    for k in kinds:
        if k != 0:
            return False
    tout = 0
    for o in tx.outputs:
        if not (0 < o.value <= MAX_SASHIMI):
            return False
        tout += o.value
    return 0 < tout <= MAX_SASHIMI and tout <= tin


def _members(W: World, n: int, pv: List[int], fees: List[int]) -> List[Any]:
    ms = []
    if n >= 1:
        ms.append(W.make_tx(tok(TX, 40), [(0, 0, 0)], [(pv[0] - fees[0], 1)], pv, tok(TX, 99), None))
    if n >= 2:
        ms.append(W.make_tx(tok(TX, 41), [(2, 0, 0)], [(pv[2] - fees[1], 2)], pv, tok(TX, 99), None))
    if n >= 3:
        # spends the parent's own reward output (T2,0): exists on P's branch only
        ms.append(W.make_tx(tok(TX, 45), [(7, 0, 0)], [(4, 2)], pv, tok(TX, 2), None))
    return ms


def submit(npool: int, c: int, twin: bool = False, real: bool = False):
    W, ns = _setup(real)

    def check_submit(v0: int, v2: int, idx: int, kind: int, ov: int) -> bool:
        """
        post: _
        """
        if not (2 <= v0 <= 10 ** 15 and 2 <= v2 <= 10 ** 15 and 0 <= idx < 2 ** 32 and 0 <= kind <= 6 and 0 <= ov < 2 ** 64):
            return True
        if not real:
            W._install_crypto()
        pv = [v0, 6, v2, 8]
        state = W.state(pv)
        lp = ns.make_node()
        cm = lp.chain_manager
        cm.coinstate = state
        cm.last_known_valid_coinstate = _older_state(W, state)
        pool = _members(W, npool, pv, [1, 1])
        cm.transaction_pool = list(pool)
        try:
            tx = W.make_tx(tok(TX, 42), [(c, idx, kind)], [(ov, 1)], pv, tok(TX, 99), None)
        except Exception:
            return True         # not constructible (a value that cannot be encoded): nothing to submit
        raised = False
        try:
            admitted = cm.add_transaction_to_pool(tx)
        except Exception:
            raised = True
            admitted = False
        if twin:
            return not admitted
        after = cm.transaction_pool
        if not admitted:
            # not admitted (refused or an exception escaped to the connection handler): pool exactly as before
            if len(after) != len(pool):
                return False
            for a, b in zip(after, pool):
                if a is not b:
                    return False
            return True
        # admitted: valid at the head, disjoint from the members, appended once
        if not _valid_at(W, state, state.current_chain_hash, tx, [kind]):
            return False
        for m in pool:
            r, s = m.inputs[0].output_reference, tx.inputs[0].output_reference
            if r.hash == s.hash and r.index == s.index:
                return False
        if len(after) != len(pool) + 1 or after[-1] is not tx:
            return False
        for a, b in zip(after, pool):
            if a is not b:
                return False
        return True

    return check_submit, {"v0": 10, "v2": 10, "idx": 0, "kind": 0, "ov": 5}


def head_change(change: int, twin: bool = False, real: bool = False):
    """0 extension mining member A; 1 extension mining a transaction that conflicts with A; 2 switch to the sibling fork
    (reward-only tip, lacks member D's input: the parent's reward output); 3 as 2 but starting on the fork and switching to P's extension;
    4-7 an extension that mines several members at once (A+B, B+C, A+B+C adjacent in the pool; A+C not adjacent)."""
    W, ns = _setup(real, served_head="P" if change != 3 else "F")
    dt = W.dt

    def check_head_change(v0: int, v1: int, v2: int, f0: int, f1: int) -> bool:
        """
        post: _
        """
        if not (3 <= v0 <= 10 ** 15 and 3 <= v1 <= 10 ** 15 and 3 <= v2 <= 10 ** 15 and 0 <= f0 <= 2 and 0 <= f1 <= 2):
            return True
        if not real:
            W._install_crypto()
        pv = [v0, v1, v2, 8]
        state = W.state(pv)
        lp = ns.make_node()
        cm = lp.chain_manager
        cm.coinstate = state
        A, B, D = _members(W, 3, pv, [f0, f1])
        C = W.make_tx(tok(TX, 43), [(1, 1, 0)], [(v1 - 1, 2)], pv, tok(TX, 99), None)      # spends (T10,1): present on both forks
        pool = [A, B, C, D]
        kinds = {id(A): [0], id(B): [0], id(C): [0], id(D): [0]}
        if change == 3:
            pool = [A, B, C]    # at the fork's head D's input does not exist (Inv)
        cm.transaction_pool = list(pool)
        cb = W.env.coinbase(W.h, [dt.Output(1, W.keys[3])], tok(TX, 20))
        if change == 0:
            new = state.add_block_no_validation(W.candidate(state, [cb, A], 3000))
        elif change == 1:
            A2 = W.make_tx(tok(TX, 44), [(0, 0, 0)], [(v0 - 2, 2)], pv, cb.hash(), None)
            new = state.add_block_no_validation(W.candidate(state, [cb, A2], 3000))
        elif change == 2:
            new = W.env.cstate.CoinState(state.block_by_hash, state.unspent_transaction_outs_by_hash, state.block_by_height_by_hash,
                                         state.heads, W.F.hash())
        elif change == 3:
            new = state.add_block_no_validation(W.candidate(state, [cb, C], 3000))
        else:
            # one head change that invalidates SEVERAL pending transactions, adjacent in the pool
            mined = {4: [A, B], 5: [B, C], 6: [A, B, C], 7: [A, C]}[change]
            new = state.add_block_no_validation(W.candidate(state, [cb] + mined, 3000))
        try:
            cm.set_coinstate(new)
        except Exception:
            return False
        if twin:
            return len(cm.transaction_pool) == len(pool)
        after = cm.transaction_pool
        if cm.coinstate is not new:
            return False
        exp = [m for m in pool if _valid_at(W, new, new.current_chain_hash, m, kinds[id(m)])]
        if len(after) != len(exp):
            return False
        for a, b in zip(after, exp):
            if a is not b:
                return False
        return True

    return check_head_change, {"v0": 10, "v1": 10, "v2": 10, "f0": 1, "f1": 1}


def concurrent_head_change(twin: bool = False, real: bool = False):
    W, ns = _setup(real)
    dt = W.dt
    import skepticoin.networking.manager as mgr

    def check_concurrent(v0: int, ov: int) -> bool:
        """
        post: _
        """
        if not (3 <= v0 <= 10 ** 15 and 1 <= ov <= 10 ** 15):
            return True
        if not real:
            W._install_crypto()
        pv = [v0, 6, 7, 8]
        state = W.state(pv)
        lp = ns.make_node()
        cm = lp.chain_manager
        cm.coinstate = state
        cm.transaction_pool = []
        cb = W.env.coinbase(W.h, [dt.Output(1, W.keys[3])], tok(TX, 20))
        spender = W.make_tx(tok(TX, 44), [(0, 0, 0)], [(v0 - 2, 2)], pv, cb.hash(), None)
        new = state.add_block_no_validation(W.candidate(state, [cb, spender], 3000))     # spends (T10,0)
        tx = W.make_tx(tok(TX, 42), [(0, 0, 0)], [(ov, 1)], pv, tok(TX, 99), None)
        real_validate = mgr.validate_non_coinbase_transaction_in_coinstate
        fired: List[int] = []

        def validate_then_other_thread(transaction, at_hash, coinstate):
            real_validate(transaction, at_hash, coinstate)
            if not fired and not cm.lock.locked():
                # the other thread (block handler / miner) gets to run here: it is not blocked by the manager's lock
                fired.append(1)
                cm.set_coinstate(new)
        mgr.validate_non_coinbase_transaction_in_coinstate = validate_then_other_thread
        try:
            try:
                cm.add_transaction_to_pool(tx)
            except Exception:
                pass
        finally:
            mgr.validate_non_coinbase_transaction_in_coinstate = real_validate
        if not fired:
            cm.set_coinstate(new)       # the other thread was blocked until the submission finished
        if twin:
            return False
        for m in cm.transaction_pool:
            if not _valid_at(W, cm.coinstate, cm.coinstate.current_chain_hash, m, [0]):
                return False
        return cm.coinstate is new

    return check_concurrent, {"v0": 10, "ov": 5}


def resubmission(twin: bool = False, real: bool = False):
    """History: a transaction is submitted, the head changes, the SAME transaction is submitted again. Whatever the node
    remembers about the first submission, admission the second time is judged at the head of that moment."""
    W, ns = _setup(real)
    dt = W.dt

    def check_resubmission(v0: int, ov: int, scenario: int) -> bool:
        """
        post: _
        """
        if not (3 <= v0 <= 10 ** 15 and 1 <= ov <= 10 ** 15 and 0 <= scenario <= 3):
            return True
        if ov > v0 - 1:
            return True
        if not real:
            W._install_crypto()
        pv = [v0, 6, 7, 8]
        state = W.state(pv)
        lp = ns.make_node()
        cm = lp.chain_manager
        cm.coinstate = state
        cm.last_known_valid_coinstate = _older_state(W, state)
        cm.transaction_pool = []
        T = W.make_tx(tok(TX, 42), [(0, 0, 0)], [(ov, 1)], pv, tok(TX, 99), None)
        T2 = W.make_tx(tok(TX, 43), [(0, 0, 0)], [(ov, 2)], pv, tok(TX, 99), None)      # conflicts with T
        cb = W.env.coinbase(W.h, [dt.Output(1, W.keys[3])], tok(TX, 20))
        try:
            if scenario == 0:
                # T admitted, T mined (evicted), T submitted again: an already-mined transaction
                if not cm.add_transaction_to_pool(T):
                    return False
                cm.set_coinstate(state.add_block_no_validation(W.candidate(state, [cb, T], 3000)))
                again = cm.add_transaction_to_pool(T)
            elif scenario == 2:
                # T admitted, the head moves on without touching T (reward-only block), a conflicting T2 is submitted: refused,
                # T stays
                if not cm.add_transaction_to_pool(T):
                    return False
                cm.set_coinstate(state.add_block_no_validation(W.candidate(state, [cb], 3000)))
                if len(cm.transaction_pool) != 1 or cm.transaction_pool[0] is not T:
                    return False
                again = cm.add_transaction_to_pool(T2)
                if twin:
                    return False
                return (not again) and len(cm.transaction_pool) == 1 and cm.transaction_pool[0] is T
            elif scenario == 3:
                # two inputs owned by ONE key over one signed message: the first carries the owner's signature, the second
                # 64 bytes of nothing - refused; then the honest single-input T is still admitted
                forged = W.make_tx(tok(TX, 46), [(0, 0, 0), (2, 0, 6)], [(ov, 1)], pv, tok(TX, 99), None)
                if cm.add_transaction_to_pool(forged) or len(cm.transaction_pool) != 0:
                    return False
                ok = cm.add_transaction_to_pool(T)
                if twin:
                    return False
                return bool(ok) and len(cm.transaction_pool) == 1
            else:
                # T admitted, conflicting T2 refused, T mined, T2 submitted again: a double spend of a mined output
                if not cm.add_transaction_to_pool(T) or cm.add_transaction_to_pool(T2):
                    return False
                cm.set_coinstate(state.add_block_no_validation(W.candidate(state, [cb, T], 3000)))
                again = cm.add_transaction_to_pool(T2)
        except Exception:
            return False
        if twin:
            return False
        return (not again) and len(cm.transaction_pool) == 0

    return check_resubmission, {"v0": 10, "ov": 5, "scenario": 2}


def relay(twin: bool = False, real: bool = False):
    W, ns = _setup(real)
    import skepticoin.networking.messages as ms

    def check_relay(v0: int, ov: int, kind: int, dup: bool) -> bool:
        """
        post: _
        """
        if not (3 <= v0 <= 10 ** 15 and 0 <= ov <= 10 ** 16 and 0 <= kind <= 1):
            return True
        if not real:
            W._install_crypto()
        pv = [v0, 6, 7, 8]
        lp = ns.make_node()
        cm = lp.chain_manager
        cm.coinstate = W.state(pv)
        tx = W.make_tx(tok(TX, 42), [(0, 0, kind)], [(ov, 1)], pv, tok(TX, 99), None)
        cm.transaction_pool = [tx] if dup else []
        peer = ns.connect_peer(lp, "10.0.0.1", 1000, "INCOMING")
        sent: List[Any] = []
        lp.network_manager.broadcast_transaction = lambda t: sent.append(t)
        try:
            peer.handle_transaction_received(ms.MessageHeader(1, 1, 0, 7), ms.DataMessage(ms.DATA_TRANSACTION, tx))
        except Exception:
            pass
        if twin:
            return len(sent) == 0
        valid = (kind == 0 and 0 < ov <= MAX_SASHIMI and ov <= v0)
        in_pool = len([m for m in cm.transaction_pool if m is tx])
        if dup:
            return len(sent) == 0 and in_pool == 1
        if len(sent) > 1 or (len(sent) == 1 and not (valid and in_pool == 1 and sent[0] is tx)):
            return False
        if in_pool > 1 or (in_pool == 1 and not valid):
            return False
        return True

    return check_relay, {"v0": 10, "ov": 5, "kind": 0, "dup": False}


def obligations(tier: str, known: List[str]) -> List[Ob]:
    thorough = tier == "thorough"
    T = 1200 if thorough else 600
    obs: List[Ob] = []
    for npool in (0, 1, 2):
        for c in (range(10) if thorough else (0, 2, 4, 5, 6)):
            if not thorough and npool == 1 and c not in (0, 2):
                continue
            obs.append(Ob("submit[pool=%d,ref=%s]" % (npool, POOL_NAMES[c]), C_ADM + "; " + C_INV, "submit", {"npool": npool, "c": c}, timeout=T))
    obs.append(twin_of([o for o in obs if o.name == "submit[pool=2,ref=unspent-a]"][0], timeout=300))
    for ch, nm in enumerate(("extension-mines-member", "extension-mines-conflict", "switch-to-reward-only-fork-tip", "switch-from-fork")):
        obs.append(Ob("head-change[%s]" % nm, C_EVICT + "; " + C_INV, "head_change", {"change": ch}, timeout=T))
    obs.append(twin_of(obs[-2], timeout=300))
    for ch, nm in ((4, "extension-mines-two-adjacent-members[A,B]"), (5, "extension-mines-two-adjacent-members[B,C]"),
                   (6, "extension-mines-three-adjacent-members"), (7, "extension-mines-two-separated-members")):
        if thorough or ch in (4, 6):
            obs.append(Ob("head-change[%s]" % nm, C_EVICT + "; " + C_INV, "head_change", {"change": ch}, timeout=T))
    obs.append(Ob("head-change-during-submission", C_INV, "concurrent_head_change", {}, timeout=T))
    obs.append(Ob("resubmission-after-head-change", C_ADM, "resubmission", {}, timeout=T))
    obs.append(Ob("relay-once", C_RELAY, "relay", {}, timeout=T))
    obs.append(twin_of(obs[-1], timeout=300))
    return obs


def replay(ob: Ob, model):
    return generic_replay(sys.modules[__name__], ob, model)

"""C12 - mining: assembled blocks are valid, pay subsidy plus fees, and are adopted.

The real MinerWatcher handlers (handle_request_scrypt_input_message, handle_scrypt_output_message)
run on a MinerWatcher shell attached to a node shell; the served state is a SymBlock world. Symbolic:
the clock at assembly and at discovery, the parent's timestamp, the nonce, the pool content (0..2
compatible transactions with symbolic fees), the values they spend. The scrypt output handed back
is the one the real Miner process would compute (construct_summary_hash).
 a candidate validity: once the id is below target the found block passes the node's own add_block
 b reward: one output of exactly subsidy(height) + fees to the miner's key
 c timestamp later than the parent's
 d adoption: afterwards the served state contains the block (its head when it extends the head),
   save_block + flush_blocks and broadcast_block were called with it, and nothing was published or
   broadcast before validation succeeded
"""
from __future__ import annotations

import sys
from typing import Any, List, Optional

from symlib.runner import Ob
from symlib.common import generic_replay, twin_of
from symlib.symblock import World, MAX_FUTURE, RETARGET, ref_subsidy, HALVING
from symlib.world import tok, TX, BLK, MAXTARGET

META = {
    "explanation": "MinerWatcher.handle_request_scrypt_input_message and handle_scrypt_output_message executed on a shell (real "
                   "ChainManager/NetworkManager, recording disk and broadcast) for symbolic clocks, nonce, parent timestamp and pool fees; "
                   "checks validity of the found block by the node's own add_block, the exact reward, the timestamp and the adoption "
                   "(served state, store calls, broadcast) in that order.",
    "technique": "CrossHair symbolic execution of the miner's message handlers on a node shell",
    "bounds": "pool of 0..2 compatible transactions; heights {2, 10080, 10081, 1050000}; clocks and nonce over the full 32-bit range",
    "outside": "the scrypt worker processes and queues (their message is constructed directly); competing blocks arriving between "
               "assembly and discovery (thread interleavings)",
    "stubs": ["MinerWatcher shell (no argparse/processes/queues)", "node shell", "stubs as C01 with LRO ids for objects the code builds itself",
              "save_wallet, the statistics counter and the console balance (Decimal) replaced by no-ops"],
    "assumptions": ["pool satisfies C13's invariant at the served head"],
}

C_VALID = "a block whose id is below target passes the node's own full validation"
C_REWARD = "its reward pays exactly subsidy(height) plus the fees of the included transactions to the miner's key"
C_TS = "its timestamp is later than its parent's"
C_ADOPT = "a found block becomes part of the served chain state (its head if it extends the head), is written to the store and is broadcast"

KEY_CLOCK = "C12/clock-30s-behind-head"


class _Queue:
    def __init__(self) -> None:
        self.items: List[Any] = []

    def put(self, x: Any) -> None:
        self.items.append(x)


class _Thread:
    def __init__(self, lp: Any):
        self.local_peer = lp


def _watcher(W: World, ns, lp, wallet):
    import skepticoin.mining as mining
    mw = mining.MinerWatcher.__new__(mining.MinerWatcher)
    mw.send_queues = [_Queue()]
    mw.mining_args = {}
    mw.network_thread = _Thread(lp)
    mw.wallet = wallet
    mw.public_key = W.keys[2].public_key
    mw.hash_stats = {}
    mw.increment_hash_counter = lambda: None      # console statistics are not the subject
    return mw, mining


def found_block(h: int, npool: int, exclude_known: bool = True, only_known: bool = False, multi: bool = False, twin: bool = False, real: bool = False):
    W = World(real=real, networking=True, h=h, served_head="P")
    from symlib import nodeshell as ns
    dt, cons = W.dt, W.cons
    boundary = (h % RETARGET == 0)
    import skepticoin.wallet as wl

    def check_found(now1: int, now2: int, pts: int, nonce: int, v0: int, v2: int, f0: int, f1: int) -> bool:
        """
        post: _
        """
        if not (0 <= now1 <= now2 < 2 ** 32 - 40 and 1000 < pts < 2 ** 32 - 40 and 0 <= nonce < 2 ** 32):
            return True
        if not (2 <= v0 <= 10 ** 15 and 2 <= v2 <= 10 ** 15 and 0 <= f0 < v0 and 0 <= f1 < v2):
            return True
        if boundary and not (now1 >= 1000 + 40_000 and pts >= 1000 + 40_000):
            return True     # at a retarget boundary the elapsed time is kept >= 40000 s so that the new target
            #                 (max * dt / 1209600, first byte >= 0x08) stays above the synthetic block id (first byte 0x07)
        behind = now2 <= pts - MAX_FUTURE         # the validator's clock is >= 30 s behind the head's timestamp
        if exclude_known and behind:
            return True                            # known finding F5, reported by its own obligation
        if only_known and not behind:
            return True
        if not real:
            W._install_crypto()
            from symlib.stubs.oracles import LRO
            W.dt.sha256d = LRO(0x07)
        pv = [v0, 6, v2, 8]
        state = W.state(pv, pts=pts, ptarget=MAXTARGET,
                        start_ts=(1000, 1001) if boundary else None)
        lp = ns.make_node()
        cm = lp.chain_manager
        cm.coinstate = state
        pool = []
        if npool >= 1 and multi:
            # one pending transaction spending TWO outputs of the same earlier transaction (T10,0) and (T10,1): fee still f0
            pool.append(W.make_tx(tok(TX, 40), [(0, 0, 0), (1, 1, 0)], [(v0 + 6 - f0, 1)], pv, tok(TX, 99), None))
        elif npool >= 1:
            pool.append(W.make_tx(tok(TX, 40), [(0, 0, 0)], [(v0 - f0, 1)], pv, tok(TX, 99), None))   # ids as cached at decode time
        if npool >= 2:
            pool.append(W.make_tx(tok(TX, 41), [(2, 0, 0)], [(v2 - f1, 2)], pv, tok(TX, 99), None))
        cm.transaction_pool = list(pool)
        wallet = wl.Wallet({W.keys[2].public_key: b"k2", W.keys[1].public_key: b"k1"}, [W.keys[1].public_key],
                           {W.keys[2].public_key: "reserved for potentially mined block"})
        mw, mining = _watcher(W, ns, lp, wallet)
        events: List[Any] = []
        lp.network_manager.broadcast_block = lambda b: events.append(("broadcast", b, cm.coinstate))
        lp.disk_interface.save_block = lambda b: events.append(("save", b, cm.coinstate))
        lp.disk_interface.flush_blocks = lambda: events.append(("flush", None, cm.coinstate))
        saved = (mining.time, mining.save_wallet, getattr(mining, "print", None), mining.Decimal)

        class _Dec:      # the console balance (int / Decimal) is not the subject; symbolic Decimal division costs ~6 s per path
            def __init__(self, x: Any):
                pass

            def __rtruediv__(self, other: Any) -> int:
                return 0
        mining.Decimal = _Dec
        clock = [now1]
        mining.time = lambda: clock[0]
        mining.save_wallet = lambda w: None
        mining.print = lambda *a, **k: None
        try:
            mw.handle_request_scrypt_input_message(0, nonce)
            msg = mw.send_queues[0].items[-1]
            if msg[0] != "scrypt_input":
                return False
            summary, height = msg[1]
            summary_hash = cons.construct_summary_hash(summary, height)     # what the Miner process computes
            clock[0] = now2
            raised = False
            try:
                mw.handle_scrypt_output_message(0, summary_hash)
            except Exception:
                raised = True
        finally:
            mining.time, mining.save_wallet, mining.Decimal = saved[0], saved[1], saved[3]
            if saved[2] is None:
                del mining.print
            else:
                mining.print = saved[2]
        if twin:
            return raised
        if raised:
            return False
        summary2, height2, txs = mw.mining_args[0]
        # b. reward, c. timestamp, height
        if height != h or summary.height != h:
            return False
        if not (summary.timestamp > pts):
            return False
        cbt = txs[0]
        fees = (f0 if npool >= 1 else 0) + (f1 if npool >= 2 else 0)
        if len(cbt.outputs) != 1 or cbt.outputs[0].value != ref_subsidy(h) + fees:
            return False
        if cbt.outputs[0].public_key.public_key != W.keys[2].public_key:
            return False
        if len(txs) != 1 + npool:
            return False
        for a, b in zip(txs[1:], pool):
            if a is not b:
                return False
        # d. adoption: the target is the maximum, so the id is below it and the block was found
        served = cm.coinstate
        blocks = [b for (_, b, _) in events if b is not None]
        if not blocks:
            return False
        blk = blocks[0]
        if blk.hash() not in served.block_by_hash or served.current_chain_hash != blk.hash():
            return False
        if mw.coinstate is not served:
            return False
        if cm.last_known_valid_coinstate is not served:
            return False          # the node's rollback point follows the validated mined block
        kinds = [k for (k, _, _) in events]
        if kinds.count("broadcast") != 1 or kinds.count("save") != 1 or kinds.count("flush") < 1:
            return False
        if kinds.index("save") > kinds.index("flush"):
            return False
        for (k, b, st) in events:
            if b is not None and b is not blk:
                return False
            # whenever something leaves the miner (broadcast, store) the served state already contains the block
            if blk.hash() not in st.block_by_hash:
                return False
        # a new key was reserved for the next block
        return mw.public_key != W.keys[2].public_key

    base = 100_000 if boundary else 0
    return check_found, {"now1": base + 5000, "now2": base + 5001, "pts": base + 2000, "nonce": 1, "v0": 10, "v2": 10, "f0": 1, "f1": 2}


def broadcast_reaches_all(twin: bool = False, real: bool = False):
    """The real NetworkManager.broadcast_block with several active peers of which one fails while sending (its socket is
    already gone): every other active peer still gets the block, whatever the position and the kind of failure."""
    W = World(real=real, networking=True, served_head="P")
    from symlib import nodeshell as ns
    import skepticoin.networking.messages as ms

    def check_broadcast(bad: int, exc: int, inactive: int) -> bool:
        """
        post: _
        """
        if not (0 <= bad <= 3 and 0 <= exc <= 2 and 0 <= inactive <= 3):
            return True
        if not real:
            W._install_crypto()
        lp = ns.make_node()
        lp.chain_manager.coinstate = W.state([5, 6, 7, 8])
        peers = [ns.connect_peer(lp, "10.0.0.%d" % (i + 1), 1000 + i, "INCOMING" if i % 2 else "OUTGOING") for i in range(4)]
        got: List[int] = []
        for i, p in enumerate(peers):
            def send(m, prev_header=None, i=i):
                if i == bad:
                    raise [ValueError("Invalid file descriptor: -1"), KeyError("fd"), OSError("Bad file descriptor")][exc]
                got.append(i)
            p.send_message = send
        peers[inactive].hello_received = (inactive == bad)       # one peer has not completed the greeting (unless it is the failing one)
        try:
            lp.network_manager.broadcast_block(W.P)
        except Exception:
            return False
        if twin:
            return False
        for i, p in enumerate(peers):
            active = p.hello_sent and p.hello_received
            if i != bad and active and got.count(i) != 1:
                return False
            if not active and i in got:
                return False
        return True

    return check_broadcast, {"bad": 1, "exc": 0, "inactive": 3}


def stale_candidate(twin: bool = False, real: bool = False):
    """Two miner processes: miner 0 gets a candidate on head P; a competing block becomes the head; miner 1 asks for work (the
    watcher refreshes its state); then miner 0's nonce wins. The found block does not extend the head any more - it still
    becomes part of the served state, is stored and broadcast."""
    W = World(real=real, networking=True, served_head="P")
    from symlib import nodeshell as ns
    dt, cons = W.dt, W.cons
    import skepticoin.wallet as wl

    def check_stale(now1: int, now2: int, nonce: int) -> bool:
        """
        post: _
        """
        if not (2001 <= now1 <= now2 < 2 ** 31 and 0 <= nonce < 2 ** 32):
            return True
        if not real:
            W._install_crypto()
            from symlib.stubs.oracles import LRO
            W.dt.sha256d = LRO(0x07)
        state = W.state([5, 6, 7, 8])
        lp = ns.make_node()
        cm = lp.chain_manager
        cm.coinstate = state
        cm.last_known_valid_coinstate = state
        cm.transaction_pool = []
        wallet = wl.Wallet({W.keys[2].public_key: b"k2", W.keys[1].public_key: b"k1", W.keys[0].public_key: b"k0"},
                           [W.keys[1].public_key, W.keys[0].public_key], {W.keys[2].public_key: "reserved for potentially mined block"})
        mw, mining = _watcher(W, ns, lp, wallet)
        mw.send_queues = [_Queue(), _Queue()]
        events: List[Any] = []
        lp.network_manager.broadcast_block = lambda b: events.append(("broadcast", b))
        lp.disk_interface.save_block = lambda b: events.append(("save", b))
        lp.disk_interface.flush_blocks = lambda: events.append(("flush", None))
        saved = (mining.time, mining.save_wallet, getattr(mining, "print", None), mining.Decimal)

        class _Dec:
            def __init__(self, x: Any):
                pass

            def __rtruediv__(self, other: Any) -> int:
                return 0
        clock = [now1]
        mining.time, mining.save_wallet, mining.print, mining.Decimal = (lambda: clock[0]), (lambda w: None), (lambda *a, **k: None), _Dec
        try:
            mw.handle_request_scrypt_input_message(0, nonce)
            summary0, height0 = mw.send_queues[0].items[-1][1]
            # a competing block on the same parent arrives from the network and becomes the head
            cbx = W.env.coinbase(W.h, [dt.Output(1, W.keys[3])], tok(TX, 30))
            rival = W.candidate(state, [cbx], now1, bid=tok(BLK, 11), nonce=77)
            cm.set_coinstate(state.add_block(rival, now1))
            mw.handle_request_scrypt_input_message(1, nonce)
            # the candidate handed out after the head change is built on the NEW head and is later than it
            summary1, height1 = mw.send_queues[1].items[-1][1]
            if summary1.previous_block_hash != rival.hash() or height1 != rival.height + 1 or not (summary1.timestamp > rival.timestamp):
                return False
            clock[0] = now2
            try:
                mw.handle_scrypt_output_message(0, cons.construct_summary_hash(summary0, height0))
                raised = False
            except Exception:
                raised = True
        finally:
            mining.time, mining.save_wallet, mining.Decimal = saved[0], saved[1], saved[3]
            if saved[2] is None:
                del mining.print
            else:
                mining.print = saved[2]
        if twin:
            return raised
        if raised:
            return False
        blocks = [b for (k, b) in events if b is not None]
        if not blocks:
            return False
        blk = blocks[0]
        served = cm.coinstate
        if blk.previous_block_hash != W.P.hash() or blk.hash() not in served.block_by_hash:
            return False
        if rival.hash() not in served.block_by_hash or served.current_chain_hash != rival.hash():
            return False           # the block that arrived first stays the head (equal height)
        kinds = [k for (k, _) in events]
        return kinds.count("broadcast") == 1 and kinds.count("save") == 1 and kinds.count("flush") >= 1

    return check_stale, {"now1": 5000, "now2": 5001, "nonce": 1}


def after_reorg(twin: bool = False, real: bool = False):
    """The pool holds a transaction that is valid only on the head's branch (it spends P's reward); the sibling fork overtakes
    with a reward-only block; the miner then asks for work and its nonce wins. The candidate must be assembled (no error),
    must not contain the now unspendable transaction, and the found block is adopted on the new head."""
    W = World(real=real, networking=True, served_head="P")
    from symlib import nodeshell as ns
    dt, cons = W.dt, W.cons
    import skepticoin.wallet as wl

    def check_after_reorg(now1: int, now2: int, nonce: int) -> bool:
        """
        post: _
        """
        if not (2002 <= now1 <= now2 < 2 ** 31 and 0 <= nonce < 2 ** 32):
            return True
        if not real:
            W._install_crypto()
            from symlib.stubs.oracles import LRO
            W.dt.sha256d = LRO(0x07)
        pv = [5, 6, 7, 8]
        state = W.state(pv)
        lp = ns.make_node()
        cm = lp.chain_manager
        cm.coinstate = state
        cm.last_known_valid_coinstate = state
        only_on_p = W.make_tx(tok(TX, 45), [(7, 0, 0)], [(4, 2)], pv, tok(TX, 2), None)       # spends P's reward output
        cm.transaction_pool = [only_on_p]
        wallet = wl.Wallet({W.keys[2].public_key: b"k2", W.keys[1].public_key: b"k1", W.keys[0].public_key: b"k0"},
                           [W.keys[1].public_key, W.keys[0].public_key], {W.keys[2].public_key: "reserved for potentially mined block"})
        mw, mining = _watcher(W, ns, lp, wallet)
        events: List[Any] = []
        lp.network_manager.broadcast_block = lambda b: events.append(("broadcast", b))
        lp.disk_interface.save_block = lambda b: events.append(("save", b))
        lp.disk_interface.flush_blocks = lambda: events.append(("flush", None))
        saved = (mining.time, mining.save_wallet, getattr(mining, "print", None), mining.Decimal)

        class _Dec:
            def __init__(self, x: Any):
                pass

            def __rtruediv__(self, other: Any) -> int:
                return 0
        clock = [now1]
        mining.time, mining.save_wallet, mining.print, mining.Decimal = (lambda: clock[0]), (lambda w: None), (lambda *a, **k: None), _Dec
        try:
            cbq = W.env.coinbase(W.h, [dt.Output(1, W.keys[3])], tok(TX, 30))
            q = W.candidate(state, [cbq], 2002, parent=W.F, bid=tok(BLK, 11), nonce=77)       # reward-only block on the sibling fork
            try:
                cm.set_coinstate(state.add_block(q, now1))
            except Exception:
                return True
            if cm.coinstate.current_chain_hash != q.hash():
                return True
            try:
                mw.handle_request_scrypt_input_message(0, nonce)
                summary0, height0 = mw.send_queues[0].items[-1][1]
                clock[0] = now2
                mw.handle_scrypt_output_message(0, cons.construct_summary_hash(summary0, height0))
                raised = False
            except Exception:
                raised = True
        finally:
            mining.time, mining.save_wallet, mining.Decimal = saved[0], saved[1], saved[3]
            if saved[2] is None:
                del mining.print
            else:
                mining.print = saved[2]
        if twin:
            return raised
        if raised:
            return False
        blocks = [b for (k, b) in events if b is not None]
        if not blocks:
            return False
        blk = blocks[0]
        served = cm.coinstate
        if blk.previous_block_hash != q.hash() or served.current_chain_hash != blk.hash():
            return False
        if len(blk.transactions) != 1 or len(cm.transaction_pool) != 0:
            return False           # the transaction that is unspendable on this branch is neither mined nor kept
        kinds = [k for (k, _) in events]
        return kinds.count("broadcast") == 1 and kinds.count("save") == 1 and kinds.count("flush") >= 1

    return check_after_reorg, {"now1": 5000, "now2": 5001, "nonce": 1}


def obligations(tier: str, known: List[str]) -> List[Ob]:
    thorough = tier == "thorough"
    T = 1500 if thorough else 600
    excl = KEY_CLOCK in known
    obs: List[Ob] = []
    for h in ((2, 3, RETARGET - 1, RETARGET, RETARGET + 1, 2 * RETARGET, HALVING - 1, HALVING, HALVING + 1, 2 * HALVING, 64 * HALVING)
              if thorough else (2, RETARGET, HALVING)):
        for npool in (0, 1, 2):
            if not thorough and h != 2 and npool == 1:
                continue
            obs.append(Ob("found-block[h=%d,pool=%d]" % (h, npool), C_VALID + "; " + C_REWARD + "; " + C_TS + "; " + C_ADOPT, "found_block",
                          {"h": h, "npool": npool, "exclude_known": excl}, timeout=T))
    t = twin_of(obs[0], timeout=300)
    obs.append(t)
    # a pending transaction with several inputs drawn from ONE earlier transaction (payment + change spent together)
    for h in ((2, HALVING) if thorough else (2,)):
        for npool in ((1, 2) if thorough else (2,)):
            obs.append(Ob("found-block[h=%d,pool=%d,two-inputs-from-one-transaction]" % (h, npool), C_REWARD + "; " + C_VALID, "found_block",
                          {"h": h, "npool": npool, "exclude_known": excl, "multi": True}, timeout=T))
    obs.append(Ob("broadcast-reaches-every-active-peer", C_ADOPT, "broadcast_reaches_all", {}, timeout=T))
    obs.append(Ob("found-block-on-a-parent-that-is-no-longer-the-head", C_ADOPT, "stale_candidate", {}, timeout=T))
    obs.append(Ob("work-after-a-reorganisation-with-a-pending-transaction-of-the-losing-branch", C_VALID + "; " + C_ADOPT, "after_reorg", {}, timeout=T))
    # the listed finding, identified by its input class: validator clock at least 30 s behind the head's timestamp
    obs.append(Ob("finding[clock<=head.ts-30]", C_VALID, "found_block", {"h": 2, "npool": 0, "exclude_known": False, "only_known": True},
                  expect="refuted", role="finding", finding_key=KEY_CLOCK, timeout=300))
    return obs


def _classify(ob: Ob, model, detail: str):
    try:
        if model["now2"] <= model["pts"] - MAX_FUTURE:
            return KEY_CLOCK
    except Exception:
        pass
    return None


def replay(ob: Ob, model):
    return generic_replay(sys.modules[__name__], ob, model, classify=_classify)

"""C19 - peer book stays consistent and reconnects with bounded back-off.

a  consistency step: from any peer-book state over three addresses satisfying
   Inv (connected and disconnected disjoint) every network-manager event keeps Inv, raises nothing,
   never lets an announced/reverse-direction peer overwrite a known entry, and a greeting resets
   the failure count. Events run through the real LocalPeer.disconnect / start_outgoing_connection.
b  back-off: (E2) DisconnectedRemotePeer.is_time_to_connect encoded from its source:
   true <=> k <= MAX and (never tried or now - last >= min(10*2^k, 1800)) for all k >= 0, all clocks;
   (E1) attempt -> fail without greeting -> step: the next attempt is made iff the back-off of the
   incremented failure count has elapsed; the attempt stamps the time.
c  self-connection: an outgoing greeting carrying our own nonce records the address, drops the peer,
   and NetworkManager.step never dials it again.
d  peer file: DiskInterface.write_peers on an in-memory file system with a symbolic crash point:
   peers.json is always the complete old or the complete new content; <= 100 rows, newest first, the
   peer's earlier row removed.
"""
from __future__ import annotations

import json
import sys
import time
from typing import Any, Dict, List, Optional, Tuple

from symlib.runner import Ob
from symlib.common import generic_replay, twin_of

META = {
    "explanation": "NetworkManager / ConnectedRemotePeer event handlers executed from a symbolic peer-book state on a node shell; "
                   "is_time_to_connect encoded in z3 from its source; attempt/fail/step sequence with symbolic clocks and failure count; "
                   "write_peers on an in-memory file system with a crash before any file operation.",
    "technique": "CrossHair symbolic execution of the peer-book handlers + z3 encoding of is_time_to_connect generated from the source",
    "bounds": "3 addresses, one event from an arbitrary Inv state; failure count and clocks unbounded integers (E2: 2^k exact to k=12, "
              "abstract beyond, where the 30-minute cap applies anyway); peer file with 0/1/99/100/101 existing rows",
    "outside": "real sockets and the selector (replaced by a recording shell); sequences are covered by the one-step invariant",
    "stubs": ["node shell: recording selector, fake sockets, fixed nonce/clock", "in-memory file system for peers.json (write-through and buffered-until-close)"],
    "assumptions": ["Inv holds initially (both maps start disjoint: connected is empty at start-up)"],
}

C_INV = "no address is ever both connected and waiting for reconnection; announced peers never overwrite known ones; a greeting resets the failure count"
C_BO = "a disconnected outgoing peer is retried no sooner than min(10 s * 2^k, 30 min) after the previous attempt and not beyond the configured failures"
C_SELF = "a connection to the node itself is detected, dropped and not retried"
C_FILE = "the peer file is replaced atomically and holds at most 100 entries, most recent first"

HOSTS = ["10.0.0.1", "10.0.0.2"]
OUT, INC = "OUTGOING", "INCOMING"


def _shell():
    from symlib.prelude import import_repo_networking
    import_repo_networking()
    from symlib import nodeshell
    import skepticoin.networking.remote_peer as rpm
    import skepticoin.networking.messages as ms
    return nodeshell, rpm, ms


KEYS = [(HOSTS[0], 1000, OUT), (HOSTS[0], 2000, OUT), (HOSTS[1], 1000, OUT), (HOSTS[0], 1000, INC)]


def _populate(ns, rpm, lp, members: List[int], bans: List[int], lasts: List[int], hellos: List[bool]):
    """members[i]: 0 absent, 1 connected, 2 disconnected for KEYS[i]."""
    nm = lp.network_manager
    objs: Dict[int, Any] = {}
    for i, (m, key) in enumerate(zip(members, KEYS)):
        host, port, direction = key
        if m == 1:
            objs[i] = ns.connect_peer(lp, host, port, direction, hello=hellos[i], last_attempt=lasts[i], ban_score=bans[i])
        elif m == 2 and direction == OUT:
            d = rpm.DisconnectedRemotePeer(host, port, direction, lasts[i], bans[i])
            nm.disconnected_peers[key] = d
            objs[i] = d
    return objs


def _inv(nm) -> bool:
    for k in nm.connected_peers:
        if k in nm.disconnected_peers:
            return False
    return True


def consistency(event: str, twin: bool = False, real: bool = False):
    ns, rpm, ms = _shell()
    from ipaddress import IPv6Address

    def check_consistency(m0: int, m1: int, m2: int, m3: int, ban: int, last: int, hello: bool, port_sel: int, own_nonce: bool, which: int) -> bool:
        """
        post: _
        """
        members = [m0, m1, m2, m3]
        for m in members:
            if not (0 <= m <= 2):
                return True
        if m3 == 2:
            return True      # incoming peers are never kept for reconnection
        if not (0 <= ban <= 2 and 0 <= last <= 10 ** 10 and 0 <= port_sel <= 1 and 0 <= which <= 3):   # ban is formatted into log lines by the handlers: kept to three values
            return True
        lp = ns.make_node()
        nm = lp.network_manager
        objs = _populate(ns, rpm, lp, members, [ban, 1, 2, 0], [last, 5, 6, 7], [hello, True, True, True])
        if not _inv(nm):
            return True
        before_disc = dict(nm.disconnected_peers)
        before_conn = dict(nm.connected_peers)
        hdr = ms.MessageHeader(1, 1, 0, 7)
        raised = False
        subject = None
        try:
            if event == "connected":
                host, port, direction = KEYS[which]
                subject = rpm.ConnectedRemotePeer(lp, host, port, direction, last, ns.FakeSock(), ban)
                lp.selector.register(subject.sock, 1, data=subject)
                nm.handle_peer_connected(subject)
            elif event == "disconnected":
                if members[which] != 1:
                    return True
                subject = objs[which]
                lp.disconnect(subject, "test")
            elif event == "hello":
                if members[which] != 1:
                    return True
                subject = objs[which]
                msg = ms.HelloMessage([ms.SupportedVersion(0)], IPv6Address("::1"), 1, IPv6Address("::2"), [1000, 2000][port_sel],
                                      lp.nonce if own_nonce else lp.nonce + 1, b"ua")
                subject.handle_hello_message_received(hdr, msg)
            elif event == "peers":
                if members[which] != 1:
                    return True
                subject = objs[which]
                ann = [ms.Peer(0, IPv6Address("::FFFF:" + HOSTS[port_sel]), [1000, 2000][port_sel]),
                       ms.Peer(0, IPv6Address("2001:db8::1"), 1000)]
                subject.handle_peers_message_received(hdr, ms.PeersMessage(ann))
            else:
                return True
        except Exception:
            raised = True
        if twin:
            return raised
        if raised:
            return False
        if not _inv(nm):
            return False
        try:
            nm._sanity_check()
        except Exception:
            return False
        # known waiting entries are never replaced by announcements or by an incoming greeting
        if event in ("hello", "peers"):
            for k, v in before_disc.items():
                if k in nm.disconnected_peers and nm.disconnected_peers[k] is not v:
                    return False
            for k, v in before_conn.items():
                if k in nm.connected_peers and nm.connected_peers[k] is not v:
                    return False
        if event == "hello":
            if subject.ban_score != 0 or not subject.hello_received:
                return False
            if subject.direction == OUT and own_nonce:
                # self-connection: recorded and dropped
                if (subject.host, subject.port) not in nm.my_addresses:
                    return False
                if (subject.host, subject.port, OUT) in nm.connected_peers:
                    return False
        if event == "connected":
            key = KEYS[which]
            if nm.connected_peers.get(key) is not subject or key in nm.disconnected_peers:
                return False
        if event == "disconnected":
            key = KEYS[which]
            if key in nm.connected_peers:
                return False
            if subject.direction == OUT:
                d = nm.disconnected_peers.get(key)
                if d is None or d.ban_score != ban + (0 if hello or which != 0 else 1) and which == 0:
                    return False
            elif key in nm.disconnected_peers:
                return False
        return True

    w = {"m0": 1, "m1": 2, "m2": 0, "m3": 1, "ban": 3, "last": 10, "hello": True, "port_sel": 1, "own_nonce": False, "which": 0}
    if event == "hello":
        w["which"] = 3
    return check_consistency, w


def backoff_kernel():
    import z3
    from symlib.e2 import Translator, Queries, Opt
    ns, rpm, ms = _shell()
    k, last, now = z3.Ints("k last now")
    is_none = z3.Bool("never_tried")
    tr = Translator(rpm.DisconnectedRemotePeer.is_time_to_connect, selfobj={"ban_score": k, "last_connection_attempt": Opt(is_none, last)})
    paths = tr.run({"current_time": now})
    Q = Queries()
    MAXA = 2880
    dom = [k >= 0]
    table = z3.IntVal(1800)
    for i in range(7, -1, -1):
        table = z3.If(k == i, z3.IntVal(10 * 2 ** i), table)
    spec = z3.And(k <= MAXA, z3.Or(is_none, now - last >= table))
    failed = []
    conds = []
    for i, p in enumerate(paths):
        conds.append(p.cond)
        if not Q.sat("path%d" % i, dom + [p.cond] + tr.extra_assumptions):
            failed.append("path %d unreachable" % i)
        r, m = Q.check("path%d: returns true <=> k <= 2880 and (never tried or now-last >= min(10*2^k, 1800))" % i,
                       dom + [p.cond] + tr.extra_assumptions, z3.Not(p.ret == spec))
        if r != "unsat":
            failed.append("path %d: %s %s" % (i, r, m))
    r, m = Q.check("paths cover the domain", dom, z3.Not(z3.Or(*conds)))
    if r != "unsat":
        failed.append("coverage %s" % r)
    # constants the encoding resolved from the module
    consts = (rpm.MAX_CONNECTION_ATTEMPTS, rpm.TIME_TO_SECOND_CONNECTION_ATTEMPT, rpm.MAX_TIME_BETWEEN_CONNECTION_ATTEMPTS)
    if consts != (2880, 10, 1800):
        failed.append("constants %r != documented (2880, 10, 1800)" % (consts,))
    # translator validation against the real method
    mism = 0
    vecs = [(0, None, 5), (0, 100, 109), (0, 100, 110), (1, 100, 119), (1, 100, 120), (7, 0, 1279), (7, 0, 1280), (8, 0, 1799), (8, 0, 1800),
            (12, 0, 1800), (13, 0, 1799), (40, 0, 1800), (2880, 0, 1800), (2881, 0, 10 ** 9), (2881, None, 0), (3, 50, 20)]
    for (kv, lv, nv) in vecs:
        realv = rpm.DisconnectedRemotePeer("h", 1, OUT, lv, kv).is_time_to_connect(nv)
        ok = False
        for p in paths:
            s = z3.Solver()
            s.add(k == kv, now == nv, is_none == (lv is None), last == (lv if lv is not None else 0), p.cond, *tr.extra_assumptions)
            if str(s.check()) == "sat":
                s.add(p.ret != z3.BoolVal(bool(realv)))
                ok = str(s.check()) == "unsat"
        if not ok:
            mism += 1
    if mism:
        return {"status": "error", "detail": "translator disagrees with the real method on %d vectors" % mism, "queries": Q.count}
    return {"status": "confirmed" if not failed else "refuted", "detail": "; ".join(failed) or
            "is_time_to_connect <=> k<=2880 and (never tried or now-last >= min(10*2^k,1800)) for all k>=0, all clocks (%d paths, %d queries, %d vectors)"
            % (len(paths), Q.count, len(vecs)), "queries": Q.count, "solver_s": Q.time, "paths": len(paths),
            "model": ({"failed": failed} if failed else None), "translator_log": tr.log, "query_log": Q.log,
            "functions": ["skepticoin.networking.remote_peer:DisconnectedRemotePeer.is_time_to_connect"]}


def _ref_backoff(k: int) -> int:
    return 10 * 2 ** k if k <= 7 else 1800


def retry_sequence(kcase: int, twin: bool = False, real: bool = False):
    """attempt at t1 (failure count k) -> ends without greeting -> step at t2: second attempt iff backoff(k+1) elapsed."""
    ns, rpm, ms = _shell()

    def check_retry(k: int, last: int, t1: int, t2: int, greeted: bool) -> bool:
        """
        post: _
        """
        if k != kcase:          # the failure count is formatted into a log line on disconnect: one concrete value per instance
            return True
        if not (0 <= last <= t1 <= t2 <= 10 ** 10):
            return True
        lp = ns.make_node()
        nm = lp.network_manager
        key = KEYS[0]
        nm.disconnected_peers[key] = rpm.DisconnectedRemotePeer(key[0], key[1], OUT, last, k)
        starts: List[int] = []
        real_start = lp.start_outgoing_connection

        def counting_start(dp):
            starts.append(1)
            return real_start(dp)
        lp.start_outgoing_connection = counting_start
        nm.step(t1)
        first = len(starts)
        exp_first = (k <= 2880) and (t1 - last >= _ref_backoff(k))
        if twin:
            return not (first == 1)
        if (first == 1) != exp_first:
            return False
        if first == 0:
            return True
        peer = nm.connected_peers.get(key)
        if peer is None or peer.last_connection_attempt != t1 or key in nm.disconnected_peers:
            return False
        if greeted:
            peer.hello_received = True
            peer.ban_score = 0
        lp.disconnect(peer, "closed")
        d = nm.disconnected_peers.get(key)
        k2 = 0 if greeted else k + 1
        if d is None or d.ban_score != k2 or d.last_connection_attempt != t1:
            return False
        nm.step(t2)
        second = len(starts) - first
        exp_second = (k2 <= 2880) and (t2 - t1 >= _ref_backoff(k2))
        return (second == 1) == exp_second

    return check_retry, {"k": kcase, "last": 0, "t1": 5000, "t2": 9000, "greeted": False}


def self_connection(twin: bool = False, real: bool = False):
    ns, rpm, ms = _shell()
    from ipaddress import IPv6Address

    def check_self(t: int, k: int, last: int) -> bool:
        """
        post: _
        """
        if not (0 <= t <= 10 ** 10 and 0 <= k <= 3000 and 0 <= last <= 10 ** 10):
            return True
        lp = ns.make_node()
        nm = lp.network_manager
        key = KEYS[0]
        peer = ns.connect_peer(lp, key[0], key[1], OUT, hello=False, last_attempt=last, ban_score=k)
        peer.hello_sent = True
        msg = ms.HelloMessage([ms.SupportedVersion(0)], IPv6Address("::1"), 1, IPv6Address("::2"), 2412, lp.nonce, b"ua")
        try:
            peer.handle_hello_message_received(ms.MessageHeader(1, 1, 0, 7), msg)
        except Exception:
            return False
        if twin:
            return False
        if (key[0], key[1]) not in nm.my_addresses or key in nm.connected_peers or not peer.sock.closed:
            return False
        starts: List[int] = []
        lp.start_outgoing_connection = lambda dp: starts.append(1)
        nm.step(t)
        return len(starts) == 0

    return check_self, {"t": 10 ** 9, "k": 0, "last": 0}


# ------------------------------------------------------------------------------------------------ d


from symlib.stubs.fs import MemFS, Crash, patched  # noqa: E402


def peer_file(nrows: int, maxlen: int = 100, crash: bool = True, twin: bool = False, real: bool = False):
    """maxlen: value given to PEERS_JSON_MAX_LEN (the code is parametric in it; the crash analysis uses 5 because one path
    through json.dump of 100 rows costs ~5 s under the tracer); crash=False pins the crash point beyond the last operation."""
    ns, rpm, ms = _shell()
    import skepticoin.networking.disk_interface as di
    di.PEERS_JSON_MAX_LEN = maxlen
    LIMIT = maxlen

    def rows(n: int) -> List[List[Any]]:
        return [["10.1.%d.%d" % (i // 250, i % 250), 2412, OUT, "2026-01-01T00:00:00Z"] for i in range(n)]

    # number of file operations of a crash-free run (dry run), to place the crash windows
    def _total_ops() -> int:
        fs0 = MemFS({"peers.json": json.dumps(rows(nrows), indent=4)} if nrows > 0 else {}, -1, True)
        with patched(di, fs0):
            di.DiskInterface().write_peers(rpm.RemotePeer("10.9.9.9", 2412, OUT, None, 0))
        return fs0.ops
    TOTAL = _total_ops()

    def check_peer_file(crash_at: int, same_as: int, eager: bool = True) -> bool:
        """
        post: _
        """
        if not (0 <= crash_at <= TOTAL + 1 and -1 <= same_as <= 2):
            return True
        if not crash and crash_at != TOTAL + 1:
            return True
        # crash points: every one for small files; for large files the first 12 and the last 12 operations (all the
        # writes in between leave peers.json untouched and peers.json.new partial - the same situation as write #12)
        if TOTAL > 60 and not (crash_at <= 12 or crash_at >= TOTAL - 12):
            return True
        old = rows(nrows)
        # the connecting peer equals an existing row (first / middle / last) or none
        idx = {-1: None, 0: 0, 1: nrows // 2, 2: nrows - 1}[same_as]
        if idx is not None and (nrows == 0 or idx >= nrows or idx < 0):
            return True
        peer = rpm.RemotePeer("10.9.9.9" if idx is None else old[idx][0], 2412, OUT, None, 0)
        old_text = json.dumps(old, indent=4)
        fs = MemFS({"peers.json": old_text} if nrows > 0 else {}, crash_at, eager)
        crashed = False
        with patched(di, fs):
            try:
                di.DiskInterface().write_peers(peer)
            except Crash:
                crashed = True
            except Exception:
                return False
        if twin:
            return not crashed
        cur = fs.files.get("peers.json")
        expect = [r for r in old if r[0:3] != [peer.host, peer.port, peer.direction]]
        if not crashed:
            got = json.loads(cur)
            if len(got) > LIMIT or len(got) != min(LIMIT, len(expect) + 1):
                return False
            if got[0][0:3] != [peer.host, peer.port, peer.direction]:
                return False
            if [r[0:3] for r in got[1:]] != [r[0:3] for r in expect][:len(got) - 1]:
                return False
            return "peers.json.new" not in fs.files
        # crashed: the file is absent-as-before / the complete old text, or the complete new one
        if nrows == 0:
            if cur is None:
                return True
        elif cur == old_text:
            return True
        try:
            got = json.loads(cur)
        except Exception:
            return False
        return got[0][0:3] == [peer.host, peer.port, peer.direction] and len(got) == min(LIMIT, len(expect) + 1)

    return check_peer_file, {"crash_at": TOTAL + 1, "same_as": -1, "eager": True}


def obligations(tier: str, known: List[str]) -> List[Ob]:
    thorough = tier == "thorough"
    T = 1200 if thorough else 600
    obs: List[Ob] = []
    for ev in ("connected", "disconnected", "hello", "peers"):
        obs.append(Ob("a.consistency[%s]" % ev, C_INV + ("; " + C_SELF if ev == "hello" else ""), "consistency", {"event": ev}, timeout=T))
    obs.append(twin_of(obs[0], timeout=300))
    obs.append(Ob("b.backoff-kernel", C_BO, "backoff_kernel", {}, kind="e2"))
    for kc in ((0, 1, 2, 3, 6, 7, 8, 9, 100, 2878, 2879, 2880, 2881, 3000) if thorough else (0, 1, 6, 7, 2879, 2880)):
        obs.append(Ob("b.retry-sequence[k=%d]" % kc, C_BO, "retry_sequence", {"kcase": kc}, timeout=T))
    obs.append(twin_of([o for o in obs if o.name == "b.retry-sequence[k=1]"][0], timeout=300))
    obs.append(Ob("c.self-connection", C_SELF, "self_connection", {}, timeout=T))
    for n in ((0, 1, 2, 4, 5, 6) if thorough else (0, 1, 5, 6)):
        obs.append(Ob("d.peer-file.crash[rows=%d,limit=5]" % n, C_FILE, "peer_file", {"nrows": n, "maxlen": 5}, timeout=T))
    obs.append(twin_of(obs[-1], timeout=300))
    for n in (99, 100, 101):
        obs.append(Ob("d.peer-file.limit[rows=%d,limit=100]" % n, C_FILE, "peer_file", {"nrows": n, "maxlen": 100, "crash": False}, timeout=T))
    return obs


def replay(ob: Ob, model):
    if ob.kind == "e2":
        out = backoff_kernel()
        return {"reproduced": out["status"] == "refuted", "detail": out["detail"], "key": None}
    return generic_replay(sys.modules[__name__], ob, model)

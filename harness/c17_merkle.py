"""C17 - the Merkle commitment binds the ordered list; inclusion proofs verify.

Symbolic: every leaf (one symbolic byte inside a 2-byte atom), the position of interest.
Hash: tagged identity H(x) = 01||x (injective), so "roots equal" is decided structurally by the
solver; in real mode (replay) the real sha256d is used and atoms become 32-byte ids.
"""
from __future__ import annotations

from typing import List

from symlib.runner import Ob
from symlib.common import generic_replay, twin_of

META = {
    "explanation": "For every pair of list lengths (n, m) up to the bound and all leaf values, get_merkle_root(a) == "
                   "get_merkle_root(b) implies a == b (covers substitute, reorder, remove, append, duplicate - in particular "
                   "duplicate-last); the root equals an independent reference construction (pairwise, odd element promoted); "
                   "get_merkle_tree(...).hash() agrees; for every n and every position i the proof hashes to the root and "
                   "contains leaf i; calc_merkle_root_hash feeds the transaction ids in order.",
    "technique": "CrossHair symbolic execution of merkletree.py with an injective hash constructor",
    "bounds": "list lengths <= 9 (thorough) / <= 5 (quick); leaves are 2-byte atoms with one symbolic byte",
    "outside": "lists longer than the bound; leaves that equal an interior node value (excluded by preimage resistance, DESIGN 8)",
    "stubs": ["hash oracle TI for merkletree.sha256d"],
    "assumptions": ["sha256d is collision-free", "a leaf never equals an interior node value"],
}


def _env(real: bool):
    from symlib.prelude import import_repo
    import_repo()
    import skepticoin.merkletree as mt
    import hashlib
    if real:
        def H(b: bytes) -> bytes:
            return hashlib.sha256(hashlib.sha256(b).digest()).digest()
        mt.sha256d = H
        leaf = lambda x: H(bytes([0xEE, x]))  # noqa
    else:
        def H(b: bytes) -> bytes:
            return b"\x01" + b
        mt.sha256d = H
        leaf = lambda x: bytes([0xEE, x])  # noqa
    return mt, H, leaf


def _ref_root(H, xs: List[bytes]) -> bytes:
    while len(xs) > 1:
        nxt = []
        i = 0
        while i < len(xs):
            if i + 1 < len(xs):
                nxt.append(H(xs[i] + xs[i + 1]))
            else:
                nxt.append(xs[i])
            i += 2
        xs = nxt
    return xs[0]


def _in_range(vs: List[int]) -> bool:
    for v in vs:
        if not (0 <= v <= 255):
            return False
    return True


def inject(n: int, m: int, twin: bool = False, real: bool = False):
    mt, H, leaf = _env(real)

    def check_inject(a0: int, a1: int, a2: int, a3: int, a4: int, a5: int, a6: int,
                     b0: int, b1: int, b2: int, b3: int, b4: int, b5: int, b6: int,
                     a7: int = 0, a8: int = 0, b7: int = 0, b8: int = 0) -> bool:
        """
        post: _
        """
        av = [a0, a1, a2, a3, a4, a5, a6, a7, a8][:n]
        bv = [b0, b1, b2, b3, b4, b5, b6, b7, b8][:m]
        if not (_in_range(av) and _in_range(bv)):
            return True
        # unused arguments are pinned so that they do not multiply models
        for u in [a0, a1, a2, a3, a4, a5, a6, a7, a8][n:] + [b0, b1, b2, b3, b4, b5, b6, b7, b8][m:]:
            if u != 0:
                return True
        a = [leaf(x) for x in av]
        b = [leaf(x) for x in bv]
        ra = mt.get_merkle_root(list(a))
        rb = mt.get_merkle_root(list(b))
        if twin:
            return False
        if ra == rb:
            return av == bv
        return True

    w = {("a%d" % i): (i + 1 if i < n else 0) for i in range(9)}
    w.update({("b%d" % i): (i + 1 if i < m else 0) for i in range(9)})
    return check_inject, w


def construction(n: int, twin: bool = False, real: bool = False):
    mt, H, leaf = _env(real)
    from skepticoin.consensus import calc_merkle_root_hash
    from skepticoin.datatypes import Transaction

    def _leaves(node) -> list:
        if not node.children:
            return [node]
        out = []
        for c in node.children:
            out += _leaves(c)
        return out

    def check_construction(a0: int, a1: int, a2: int, a3: int, a4: int, a5: int, a6: int, i: int, j: int = 0,
                           a7: int = 0, a8: int = 0) -> bool:
        """
        post: _
        """
        av = [a0, a1, a2, a3, a4, a5, a6, a7, a8][:n]
        if not _in_range(av) or not (0 <= i < n) or not (0 <= j < n):
            return True
        for u in [a0, a1, a2, a3, a4, a5, a6, a7, a8][n:]:
            if u != 0:
                return True
        a = [leaf(x) for x in av]
        # the caller's list object is handed in as it is (no copy) and must come back unchanged
        mine = list(a)
        root = mt.get_merkle_root(mine)
        if len(mine) != len(a) or mt.get_merkle_root(mine) != root:
            return False
        tree = mt.get_merkle_tree(mine)
        if len(mine) != len(a):
            return False
        for x, y in zip(mine, a):
            if x != y:
                return False
        proof = mt.get_proof(tree, i)
        if twin:
            return False
        if root != _ref_root(H, list(a)):
            return False
        if tree.hash() != root:
            return False
        if proof.hash() != root:
            return False
        found = False
        for lf in _leaves(proof):
            if lf.index == i and lf.value == a[i] and not lf.children:
                found = True
        if not found:
            return False
        # a second proof taken from the SAME tree (any other position) is as good as the first
        proof2 = mt.get_proof(tree, j)
        if proof2.hash() != root or tree.hash() != root:
            return False
        found2 = False
        for lf in _leaves(proof2):
            if lf.index == j and lf.value == a[j] and not lf.children:
                found2 = True
        if not found2:
            return False
        # the header commitment is computed over the transactions' ids, in order - also when another list with the
        # same first entry and the same length was committed to just before
        txs = [Transaction([], [], cached_hash=x) for x in a]
        if n >= 2:
            other = [txs[0]] + [Transaction([], [], cached_hash=bytes([0xEF, k])) for k in range(1, n)]
            r_other = calc_merkle_root_hash(other)
            if r_other != _ref_root(H, [t.hash() for t in other]):
                return False
        return calc_merkle_root_hash(txs) == root

    w = {("a%d" % j): (j + 1 if j < n else 0) for j in range(9)}
    w["i"] = n - 1
    w["j"] = 0
    return check_construction, w


def obligations(tier: str, known: List[str]) -> List[Ob]:
    N = 9 if tier == "thorough" else 5
    obs: List[Ob] = []
    c1 = "commitment changes whenever the ordered id list changes (substitute/reorder/remove/append/duplicate)"
    c2 = "for every list and position the proof contains the entry and reproduces the commitment"
    for n in range(1, N + 1):
        for m in range(n, N + 1):
            obs.append(Ob("inject[n=%d,m=%d]" % (n, m), c1, "inject", {"n": n, "m": m}, timeout=300))
    for n in range(1, max(N, 8) + 1):
        obs.append(Ob("construction+proof[n=%d]" % n, c2, "construction", {"n": n}, timeout=300))
    obs.append(twin_of(obs[1]))
    obs.append(twin_of([o for o in obs if o.name == "construction+proof[n=5]"][0]))
    return obs


def replay(ob: Ob, model):
    import sys
    return generic_replay(sys.modules[__name__], ob, model)

"""C06 - tamper evidence: every bit of a block is committed to.

Two concrete fully valid blocks are built in the SymBlock world with lazy-table hash oracles
(32-byte ids, so they pass through the real fixed-width decoders): reward only, and reward + one
spend. For every byte position the byte is replaced by a SYMBOLIC value different from the original
- all 255 alterations of that byte, hence all 8 single-bit flips, in one solver run. The altered
bytes go through the real Block.deserialize and then the real CoinState.add_block against the same
chain: decoding must fail or validation must reject; if a block with the same id comes out, its
content equals the original. Every proper prefix (truncation) must fail to decode or be rejected.
The adversary is given proof of work for free (every oracle id is below the target), so rejection
has to come from the commitments.
"""
from __future__ import annotations

import sys
from typing import Any, List, Tuple

from symlib.runner import Ob
from symlib.common import generic_replay, twin_of
from symlib.symblock import World
from symlib.world import tok, TX, BLK

META = {
    "explanation": "Real Block.deserialize + CoinState.add_block on a valid block's encoding with one byte replaced by a symbolic value "
                   "(every position; groups of positions per obligation) and on every proper prefix.",
    "technique": "CrossHair symbolic execution of the decoders and full validation on altered encodings (byte value symbolic, position enumerated)",
    "bounds": "two block shapes (reward only; reward + one 1-input 2-output spend), thorough adds reward + a 2-input spend + a second spend; single-byte alterations; all truncation points",
    "outside": "alterations of two or more bytes at once; other block shapes",
    "stubs": ["lazy-table hash oracles for sha256d/blake2/scrypt (collision-free on the run)", "ideal signatures", "chain-sample oracle",
              "PyMap / PyBytesIO"],
    "assumptions": ["hashes collision-free and second-preimage resistant", "signatures unforgeable"],
}

C_1 = "altering any bit of a valid block's encoding yields bytes that cannot be decoded or are rejected by full validation"
C_2 = "no alteration yields the same id with different content"
C_3 = "every truncation is undecodable or rejected"


def _make(W: World, shape: str):
    dt = W.dt
    if not W.real:
        # the signature bytes are part of the encoding whose positions are enumerated: the same bytes on every path
        from symlib.stubs import idealsig
        idealsig._SIG_COUNTER = 0
    pv = [50, 60, 70, 80]
    pre = W.state(pv)
    cb = W.env.coinbase(W.h, [dt.Output(1_000_000_003 if shape in ("spend", "two-spends") else 1_000_000_000, W.keys[3])], None, data=b"hi")
    txs = [cb]
    if shape == "spend":
        txs.append(W.make_tx(None, [(0, 0, 0)], [(30, 1), (17, 2)], pv, tok(TX, 99), None))
    if shape == "two-spends":
        txs.append(W.make_tx(None, [(0, 0, 0), (2, 0, 0)], [(100, 1), (17, 2)], pv, tok(TX, 99), None))
        txs.append(W.make_tx(None, [(1, 1, 0)], [(60, 2)], pv, tok(TX, 99), None))
    good = W.candidate(pre, txs, 3000, bid=None, nonce=5)
    return pre, good


def _fields(b: Any) -> Any:
    from harness.c07_canonical import fields
    return fields(b)


def length_of(shape: str) -> int:
    W = World(real=True)
    pre, good = _make(W, shape)
    return len(good.serialize())


def flip(shape: str, lo: int, hi: int, twin: bool = False, real: bool = False):
    W = World(real=real, lro=True)

    def check_flip(pos: int, v: int) -> bool:
        """
        post: _
        """
        if not (lo <= pos < hi and 0 <= v <= 255):
            return True
        if not real:
            W._install_crypto()
        pre, good = _make(W, shape)
        enc = good.serialize()
        if pos >= len(enc):
            return True
        if v == enc[pos]:
            return True
        # sanity of the harness itself: the unaltered block is accepted
        alt = enc[:pos] + bytes([v]) + enc[pos + 1:]
        try:
            blk = W.dt.Block.deserialize(alt)
        except Exception:
            return not twin or True
        # history: the node has validated (and holds) the genuine block - the altered copy is offered both to the state
        # before the genuine block and to the state that already contains it
        try:
            with_good = pre.add_block(good, 3000)
        except Exception:
            return False
        accepted = False
        for st in (pre, with_good):
            try:
                out = st.add_block(blk, 3000)
                # accepted means: the call returned a state in which this altered object is (or passes for) a valid block
                accepted = True
                if st is with_good and out is not None and blk.hash() == good.hash() and out.block_by_hash[good.hash()] is good \
                        and _fields(blk) != _fields(good):
                    return False         # silently "accepted" as the block already known: same id, different content
            except Exception:
                pass
        if twin:
            return accepted      # twin: "decodes and is rejected" must be reachable
        # any acceptance is a violation: either another acceptable block or - when only the transaction part was altered
        # and the header (hence the id) is the same - the same id with different content
        return not accepted

    return check_flip, {"pos": lo, "v": 0xA5}


def baseline(shape: str, twin: bool = False, real: bool = False):
    """The unaltered encoding decodes to the same block and is accepted (otherwise the flip obligations are vacuous)."""
    W = World(real=real, lro=True)

    def check_baseline(now: int) -> bool:
        """
        post: _
        """
        if not (2970 <= now < 2 ** 32):
            return True
        if not real:
            W._install_crypto()
        pre, good = _make(W, shape)
        enc = good.serialize()
        blk = W.dt.Block.deserialize(enc)
        if twin:
            return False
        if blk.hash() != good.hash() or _fields(blk) != _fields(good) or blk.serialize() != enc:
            return False
        try:
            post = pre.add_block(blk, now)
        except Exception:
            return False
        return post.current_chain_hash == blk.hash()

    return check_baseline, {"now": 3000}


def truncate(shape: str, lo: int, hi: int, twin: bool = False, real: bool = False):
    W = World(real=real, lro=True)

    def check_truncate(n: int) -> bool:
        """
        post: _
        """
        if not (lo <= n < hi):
            return True
        if not real:
            W._install_crypto()
        pre, good = _make(W, shape)
        enc = good.serialize()
        if n >= len(enc):
            return True
        try:
            blk = W.dt.Block.deserialize(enc[:n])
        except Exception:
            return True
        if twin:
            return False
        try:
            pre.add_block(blk, 3000)
            return False
        except Exception:
            return True

    return check_truncate, {"n": lo}


def obligations(tier: str, known: List[str]) -> List[Ob]:
    thorough = tier == "thorough"
    T = 1500 if thorough else 600
    obs: List[Ob] = []
    for shape in (("reward-only", "spend", "two-spends") if thorough else ("reward-only", "spend")):
        L = length_of(shape)
        obs.append(Ob("baseline[%s]" % shape, C_1, "baseline", {"shape": shape}, timeout=T))
        step = 4
        for lo in range(0, L, step):
            obs.append(Ob("flip[%s,bytes %d-%d]" % (shape, lo, min(L, lo + step) - 1), C_1 + "; " + C_2, "flip",
                          {"shape": shape, "lo": lo, "hi": min(L, lo + step)}, timeout=T))
        for lo in range(0, L, 40):
            obs.append(Ob("truncate[%s,lengths %d-%d]" % (shape, lo, min(L, lo + 40) - 1), C_3, "truncate",
                          {"shape": shape, "lo": lo, "hi": min(L, lo + 40)}, timeout=T))
    obs.append(twin_of([o for o in obs if o.name.startswith("flip[spend,bytes 204")][0], timeout=300))
    obs.append(twin_of([o for o in obs if o.name.startswith("baseline[spend")][0], timeout=300))
    return obs


def replay(ob: Ob, model):
    return generic_replay(sys.modules[__name__], ob, model)

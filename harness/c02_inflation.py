"""C02 - no inflation: value is conserved and issuance follows the subsidy schedule.

One real CoinState.add_block step on the SymBlock world with VALID references and signatures and
SYMBOLIC values everywhere (the four parent values, every output value and the reward outputs over
the whole 64-bit range, so 0, MAX+1 and 2^64-1 are ordinary paths), at heights on both sides of
subsidy-era boundaries. Oracle on acceptance:
  * every ordinary output in (0, MAX], every ordinary total in (0, MAX] and <= its inputs;
  * sum(reward outputs) <= subsidy_ref(height) + fees_ref (fees from the PARENT's unspent map);
  * sum over the real resulting unspent map <= sum over the parent's map + subsidy_ref(height).
Cumulative bound: by induction over the chain with the step above; the arithmetic of the schedule's
partial sums is discharged by z3, the base case is computed on the real genesis block.
"""
from __future__ import annotations

import sys
import time
from typing import Any, List

from symlib.runner import Ob
from symlib.common import generic_replay, twin_of
from symlib.draw import Draw, Assume, count_draws, witness
from symlib.symblock import World, MAX_SASHIMI, ref_subsidy, utxo_total, HALVING, INITIAL_SUBSIDY
from symlib.world import tok, TX, BLK

META = {
    "explanation": "CoinState.add_block on candidate blocks with valid spends and fully symbolic amounts; accepted implies the range "
                   "rules, the exact reward bound (subsidy + fees from the parent's state) and conservation of the summed unspent value; "
                   "heights on both sides of era boundaries; cumulative supply bound by induction (z3 arithmetic + real genesis base case).",
    "technique": "CrossHair symbolic execution of CoinState.add_block with symbolic amounts + z3 integer arithmetic for the cumulative schedule",
    "bounds": "<= 2 ordinary transactions x <= 2 inputs x <= 2 outputs, <= 2 reward outputs, amounts over [0, 2^64), heights "
              "{2, I-1, I, I+1, 2I, 29I, 64I} (quick) / both sides of every era boundary k*I, k = 1..31, 63, 64 (thorough)",
    "outside": "larger blocks; heights other than the listed ones rely on C16's era lemma for the subsidy function itself",
    "stubs": ["PyMap", "PyBytesIO", "ideal signatures", "tagged-identity hashes", "chain-sample oracle", "checkpoint horizon = height-1"],
    "assumptions": ["hashes collision-free (distinct transactions have distinct ids)", "every value in the parent's unspent map is in (0, MAX]"],
}

C_CONS = "unspent total after a block <= total after its parent + subsidy(height)"
C_REW = "reward outputs sum to at most subsidy(height) + fees of the other transactions"
C_RNG = "every ordinary output in (0, max], output total in (0, max] and at most the inputs"
C_CUM = "never exceeds the cumulative subsidy schedule nor the documented maximum"

U64 = 2 ** 64 - 1
SHAPES = {
    # name: (list of (inputs as pool choices, number of outputs)), reward outputs
    "1tx-1in-1out": ([((0,), 1)], 1),
    "1tx-2in-2out": ([((0, 2), 2)], 1),
    "2tx": ([((0,), 1), ((3,), 1)], 1),
    "1tx-1in-2out-2rewards": ([((1,), 2)], 2),
    "reward-only": ([], 2),
}
POOL_REFIDX = {0: 0, 1: 1, 2: 0, 3: 0}


def _draw(shape: str, d: Draw):
    txs, nrew = SHAPES[shape]
    pv = [d.rng(1, MAX_SASHIMI) for _ in range(4)] + [d.rng(1, MAX_SASHIMI)]     # last: the value only the sibling fork holds
    outs = [[d.rng(0, U64) for _ in range(nout)] for (_, nout) in txs]
    rewards = [d.rng(0, U64) for _ in range(nrew)]
    return pv, outs, rewards


def step(shape: str, h: int, served_head: str = "P", twin: bool = False, real: bool = False):
    W = World(real=real, h=h, served_head=served_head)
    dt = W.dt
    txspec, nrew = SHAPES[shape]
    N = count_draws(lambda d: _draw(shape, d))

    def check_step(vs: List[int]) -> bool:
        """
        post: _
        """
        if len(vs) != N:
            return True
        try:
            pv, outs, rewards = _draw(shape, Draw(vs))
        except Assume:
            return True
        if not real:
            W._install_crypto()
        fv = pv[4]
        pv = pv[:4]
        pre = W.state(pv, fv)
        try:
            cb = W.env.coinbase(W.h, [dt.Output(r, W.keys[3]) for r in rewards], tok(TX, 20))
            txs = []
            for n, ((ins, nout), ov) in enumerate(zip(txspec, outs)):
                txs.append(W.make_tx(tok(TX, 21 + n), [(c, POOL_REFIDX[c], 0) for c in ins],
                                     [(v, 1 + (j % 2)) for j, v in enumerate(ov)], pv, cb.hash(), None))
            block = W.candidate(pre, [cb] + txs, 3000)
        except Exception:
            return True        # not constructible (value not encodable): no block, nothing to accept
        before = utxo_total(pre.unspent_transaction_outs_by_hash[W.P.hash()])
        try:
            post = pre.add_block(block, 3000)
            accepted = True
        except Exception:
            accepted = False
        if twin:
            return not accepted
        if not accepted:
            return True
        fees = 0
        for (ins, nout), ov in zip(txspec, outs):
            tin = 0
            for c in ins:
                tin += pv[c]
            tout = 0
            for v in ov:
                if not (0 < v <= MAX_SASHIMI):
                    return False
                tout += v
            if not (0 < tout <= MAX_SASHIMI):
                return False
            if tout > tin:
                return False
            fees += tin - tout
        rsum = 0
        for r in rewards:
            rsum += r
        if rsum > ref_subsidy(h) + fees:
            return False
        after = utxo_total(post.unspent_transaction_outs_by_hash[block.hash()])
        if after > before + ref_subsidy(h):
            return False
        return True

    return check_step, {"vs": witness(lambda d: _draw(shape, d))}


def cumulative():
    """z3: partial sums of the schedule are <= the documented maximum for EVERY height; base case on the real genesis."""
    import z3
    from symlib.world import Env
    env = Env(real=True)
    t0 = time.time()
    s = z3.Solver()
    r = z3.Int("r")
    TOTAL = 2_099_999_986_350_000
    sub = [INITIAL_SUBSIDY // (2 ** k) for k in range(64)]
    q = 0
    failed = []
    for K in range(0, 65):
        prefix = sum(HALVING * sub[k] for k in range(min(K, 64)))
        sK = sub[K] if K < 64 else 0
        s.push()
        if K < 64:
            s.add(r >= 0, r < HALVING)
        else:
            s.add(r >= 0)
        s.add(z3.Not(z3.And(prefix + (r + 1) * sK <= TOTAL, prefix + (r + 1) * sK >= prefix)))
        res = s.check()
        q += 1
        s.pop()
        if str(res) != "unsat":
            failed.append("era %d: %s" % (K, res))
    # base case: the real genesis state
    g = env.cstate.CoinState.zero()
    gtotal = utxo_total(g.unspent_transaction_outs_by_hash[g.current_chain_hash])
    if not (gtotal <= INITIAL_SUBSIDY):
        failed.append("genesis total %d > subsidy(0)" % gtotal)
    return {"status": "confirmed" if not failed else "refuted", "detail": "; ".join(failed) or
            "cumulative schedule <= 2,099,999,986,350,000 at every height (65 era queries unsat); genesis total %d <= subsidy(0)" % gtotal,
            "queries": q, "solver_s": time.time() - t0, "model": ({"failed": failed} if failed else None),
            "functions": ["skepticoin.coinstate:CoinState.zero", "skepticoin.genesis:<genesis_block_data>"]}


HEIGHTS_Q = [2, HALVING - 1, HALVING, HALVING + 1, 2 * HALVING, 29 * HALVING, 64 * HALVING]
HEIGHTS_T = [2, HALVING - 1, HALVING, HALVING + 1, 2 * HALVING, 29 * HALVING, 64 * HALVING]


def obligations(tier: str, known: List[str]) -> List[Ob]:
    thorough = tier == "thorough"
    obs: List[Ob] = []
    T = 1500 if thorough else 600
    heights = list(HEIGHTS_Q)
    if thorough:
        # both sides of EVERY era boundary up to the exhaustion of the subsidy and the 64-halvings cut-off
        heights = [2]
        for k in list(range(1, 32)) + [63, 64]:
            for d in (-1, 0, 1):
                hh = k * HALVING + d
                if hh % 10080 != 0 and hh not in heights:
                    heights.append(hh)
    for h in heights:
        for shape in SHAPES:
            if not thorough and h != 2 and shape in ("1tx-2in-2out", "2tx", "1tx-1in-2out-2rewards"):
                continue
            obs.append(Ob("step[%s,h=%d]" % (shape, h), C_CONS + "; " + C_REW + "; " + C_RNG, "step", {"shape": shape, "h": h}, timeout=T))
    # the same step while a richer sibling fork is the served head: the ledger after the block must still derive from the parent's
    for shape in (SHAPES if thorough else ("1tx-1in-1out", "reward-only")):
        obs.append(Ob("step[%s,h=2,head=other-fork]" % shape, C_CONS, "step", {"shape": shape, "h": 2, "served_head": "F"}, timeout=T))
    obs.append(twin_of(obs[0], timeout=300))
    obs.append(twin_of([o for o in obs if o.name.startswith("step[reward-only,h=%d" % HALVING)][0], timeout=300))
    obs.append(Ob("cumulative-bound", C_CUM, "cumulative", {}, kind="e2"))
    return obs


def replay(ob: Ob, model):
    if ob.kind == "e2":
        out = cumulative()
        return {"reproduced": out["status"] == "refuted", "detail": out["detail"], "key": None}
    return generic_replay(sys.modules[__name__], ob, model)

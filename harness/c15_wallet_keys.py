"""C15 - wallet keys: faithful file, no key handed out twice, atomic save.

a  fidelity: dump then load reproduces key pairs, the ORDER of unused keys and the annotations, for a
   symbolic structure (which of four keys exist / are unused / annotated) with concrete contents.
b  hand-outs: Inv := unused list duplicate-free, unused and annotated disjoint, keypairs = unused +
   annotated. From any Inv state over four key labels each of get_annotated_public_key,
   restore_annotated_public_key (of the key just handed out, exactly as the miner does on exit),
   generate_key and save-then-load keeps Inv, and a hand-out made while unused keys remain never
   returns a key that was handed out before (ghost set H = annotated keys).
c  balance: Wallet.get_balance = total of the unspent outputs at the head paying any wallet key
   (annotated or unused), for a symbolic assignment of keys to the wallet.
d  atomic save: the real save_wallet on an in-memory file system, crash before any file operation
   (symbolic), both buffering behaviours: wallet.json is always the complete old or the complete new
   wallet, never a prefix or an empty file; and the program's own start-up path
   (scripts.utils.open_or_init_wallet) run on what the crash left behind loads exactly one of the two.
"""
from __future__ import annotations

import io
import json
import sys
from typing import Any, Dict, List, Optional, Tuple

from symlib.runner import Ob
from symlib.common import generic_replay, twin_of

META = {
    "explanation": "Wallet.get_annotated_public_key / restore_annotated_public_key / generate_key / dump / load / get_balance and save_wallet "
                   "executed from symbolic wallet structures (membership of four keys), with a ghost set of handed-out keys, a symbolic crash "
                   "point and both buffering behaviours of the file object.",
    "technique": "CrossHair symbolic execution of the wallet's key bookkeeping and save path (one step from an invariant state; symbolic crash point)",
    "bounds": "4 key labels; sequences get / restore / get; crash before any of the file operations of one save of a 2-key wallet, followed by a restart "
              "through open_or_init_wallet; balance on the world's head and one block further (one key paid twice per transaction)",
    "outside": "key bytes and annotation texts as symbolic strings (json/hexlify are C code and regular expressions: contents are concrete, "
               "structure is symbolic); OS-level crash semantics beyond process death (no fsync in the code)",
    "stubs": ["in-memory file system for wallet.json (eager and buffered writes)", "ideal key generation", "random.choice as a symbolic choice"],
    "assumptions": ["Inv holds for a freshly generated or loaded wallet (checked by the generate/load steps)"],
}

C_FID = "saving and loading a wallet reproduces its key pairs, unused keys and annotations exactly"
C_ONCE = "a key handed out is never handed out again while unused keys remain, also across save and load"
C_BAL = "the reported balance equals the total of unspent outputs paying any wallet key"
C_ATOM = "saving is atomic with respect to process crashes: the wallet file is always the complete previous or the complete new wallet"

KEY_F7 = "C15/restore-after-exhausted-handout"
LABELS = [bytes([0xC0 + i]) * 64 for i in range(4)]


def _wl():
    from symlib.prelude import import_repo
    import_repo()
    import skepticoin.wallet as wl
    return wl


def _mk(wl, members: List[int], order_swap: bool) -> Any:
    """members[i]: 0 absent, 1 unused, 2 annotated."""
    kp = {}
    unused = []
    ann = {}
    for i, m in enumerate(members):
        if m == 0:
            continue
        kp[LABELS[i]] = bytes([0xD0 + i]) * 32
        if m == 1:
            unused.append(LABELS[i])
        else:
            ann[LABELS[i]] = "note %d" % i
    if order_swap:
        unused.reverse()
    return wl.Wallet(kp, unused, ann)


def _inv(w: Any) -> bool:
    u = list(w.unused_public_keys)
    for k in u:
        if u.count(k) != 1 or k in w.public_key_annotations or k not in w.keypairs:
            return False
    for k in w.public_key_annotations:
        if k not in w.keypairs:
            return False
    for k in w.keypairs:
        if (k in u) == (k in w.public_key_annotations):
            return False
    return True


def _view(w: Any) -> Tuple:
    return (sorted(w.keypairs.items()), list(w.unused_public_keys), sorted(w.public_key_annotations.items()))


def handouts(exclude_known: bool = True, only_known: bool = False, note_fixed: int = -1, twin: bool = False, real: bool = False):
    wl = _wl()

    def check_handouts(m0: int, m1: int, m2: int, m3: int, swap: bool, pick: int, op: int, note: int = 0) -> bool:
        """
        post: _
        """
        members = [m0, m1, m2, m3]
        if not (0 <= note <= 2) or (note_fixed >= 0 and note != note_fixed):
            return True
        # the text of the second request: a new one, the same as the first request's, or one an older key already carries
        second_note = ["receive", "reserved", "note 2"][note]
        for m in members:
            if not (0 <= m <= 2):
                return True
        if not (0 <= pick <= 3 and 0 <= op <= 3):
            return True
        w = _mk(wl, members, swap)
        if len(w.keypairs) == 0:
            return True
        if not _inv(w):
            return False
        exhausted = len(w.unused_public_keys) == 0
        if exclude_known and exhausted and op == 1:
            return True        # known finding F7 (reported by its own obligation)
        if only_known and not (exhausted and op == 1):
            return True
        H = list(w.public_key_annotations.keys())       # handed out so far
        saved_random = wl.random

        class R:
            @staticmethod
            def choice(seq):
                s = list(seq)
                return s[pick % len(s)]
        wl.random = R
        saved_print = getattr(wl, "print", None)
        wl.print = lambda *a, **k: None
        try:
            had_unused = len(w.unused_public_keys) > 0
            k1 = w.get_annotated_public_key("reserved")
            if had_unused:
                if k1 in H or k1 in w.unused_public_keys or w.public_key_annotations.get(k1) != "reserved":
                    return False
                H.append(k1)
            if not _inv(w):
                return False
            if op == 1:
                # the miner's exit path: give the reserved key back
                w.restore_annotated_public_key(k1, "reserved")
                if had_unused:
                    H.remove(k1)
                if not _inv(w):
                    return False
            elif op == 2:
                f = io.StringIO()
                w.dump(f)
                w2 = wl.Wallet.load(io.StringIO(f.getvalue()))
                if _view(w2) != _view(w):
                    return False
                w = w2
            elif op == 3:
                # save, give the key back, save again, restart: what is on file is the wallet as it is now
                if not had_unused:
                    return True
                f1 = io.StringIO()
                w.dump(f1)
                w.restore_annotated_public_key(k1, "reserved")
                H.remove(k1)
                f2 = io.StringIO()
                w.dump(f2)
                w2 = wl.Wallet.load(io.StringIO(f2.getvalue()))
                if _view(w2) != _view(w) or not _inv(w2):
                    return False
                w = w2
            if twin:
                return False
            # the next hand-out
            had_unused = len(w.unused_public_keys) > 0
            k2 = w.get_annotated_public_key(second_note)
            if had_unused and k2 in H:
                return False
            return _inv(w)
        finally:
            wl.random = saved_random
            if saved_print is None:
                del wl.print
            else:
                wl.print = saved_print

    return check_handouts, {"m0": 1, "m1": 1, "m2": 2, "m3": 0, "swap": False, "pick": 0, "op": 1, "note": max(note_fixed, 0)}


def generate(twin: bool = False, real: bool = False):
    wl = _wl()

    def check_generate(m0: int, m1: int, m2: int, n: int) -> bool:
        """
        post: _
        """
        for m in (m0, m1, m2):
            if not (0 <= m <= 2):
                return True
        if not (1 <= n <= 3):
            return True
        if not real:
            from symlib.stubs import idealsig
            idealsig.install()
        w = _mk(wl, [m0, m1, m2, 0], False)
        before = _view(w)
        w.generate_keys(n)
        if twin:
            return False
        if not _inv(w) or len(w.keypairs) != len(before[0]) + n:
            return False
        fresh = [k for k in w.keypairs if k not in dict(before[0])]
        for k in fresh:
            if k not in w.unused_public_keys or len(k) != 64 or len(w.keypairs[k]) != 32:
                return False
        # nothing that existed was touched
        return w.unused_public_keys[:len(before[1])] == before[1] and sorted(w.public_key_annotations.items()) == before[2]

    return check_generate, {"m0": 1, "m1": 2, "m2": 0, "n": 2}


def fidelity(twin: bool = False, real: bool = False):
    wl = _wl()

    def check_fidelity(m0: int, m1: int, m2: int, m3: int, swap: bool) -> bool:
        """
        post: _
        """
        members = [m0, m1, m2, m3]
        for m in members:
            if not (0 <= m <= 2):
                return True
        w = _mk(wl, members, swap)
        f = io.StringIO()
        w.dump(f)
        text = f.getvalue()
        w2 = wl.Wallet.load(io.StringIO(text))
        if twin:
            return False
        if _view(w2) != _view(w):
            return False
        f2 = io.StringIO()
        w2.dump(f2)
        return f2.getvalue() == text and len(w2.spent_transaction_outputs) == 0

    return check_fidelity, {"m0": 1, "m1": 2, "m2": 1, "m3": 0, "swap": True}


def balance(extra: bool = False, ko_fixed: int = -1, twin: bool = False, real: bool = False):
    """extra: the head is one block further; that block's reward and its one transfer each pay ONE key in TWO outputs
    (payment and change to the same address), the key being a symbolic choice."""
    from symlib.symblock import World
    from symlib.world import tok, TX
    import skepticoin.wallet  # noqa
    W = World(real=real, served_head="P")
    wl = _wl()

    def check_balance(m0: int, m1: int, m2: int, m3: int, v0: int, v1: int, v2: int, v3: int, s: int = 1, ko: int = 0, kc: int = 0) -> bool:
        """
        post: _
        """
        members = [m0, m1, m2, m3]
        if not extra and not (s == 1 and ko == 0 and kc == 0):
            return True
        if not (0 <= ko <= 3 and 0 <= kc <= 3 and 1 <= s):
            return True
        if ko_fixed >= 0 and not (ko == ko_fixed and kc == (ko_fixed + 2) % 4):
            return True
        for m in members:
            if not (0 <= m <= 2):
                return True
        for v in (v0, v1, v2, v3):
            if not (1 <= v <= 10 ** 15):
                return True
        if not real:
            W._install_crypto()
        cs = W.state([v0, v1, v2, v3])
        if extra:
            if not (s < v0):
                return True
            cbq = W.env.coinbase(W.h, [W.dt.Output(1, W.keys[kc]), W.dt.Output(2, W.keys[kc])], tok(TX, 25))
            q = W.make_tx(tok(TX, 26), [(0, 0, 0)], [(s, ko), (v0 - s, ko)], [v0, v1, v2, v3], cbq.hash(), None)
            cs = cs.add_block_no_validation(W.candidate(cs, [cbq, q], 3000))
        kp, unused, ann = {}, [], {}
        for i, m in enumerate(members):
            if m == 0:
                continue
            kp[W.keys[i].public_key] = b"p"
            if m == 1:
                unused.append(W.keys[i].public_key)
            else:
                ann[W.keys[i].public_key] = "a"
        w = wl.Wallet(kp, unused, ann)
        got = w.get_balance(cs)
        if twin:
            return False
        total = 0
        for (_, o) in cs.unspent_transaction_outs_by_hash[cs.current_chain_hash].items():
            for i, m in enumerate(members):
                if m != 0 and o.public_key.public_key == W.keys[i].public_key:
                    total += o.value
        return got == total

    return check_balance, {"m0": 2, "m1": 1, "m2": 0, "m3": 1, "v0": 5, "v1": 6, "v2": 7, "v3": 8, "s": 1, "ko": max(ko_fixed, 0), "kc": (max(ko_fixed, 0) + 2) % 4 if extra else 0}


def atomic_save(twin: bool = False, real: bool = False):
    wl = _wl()
    from symlib.stubs.fs import MemFS, Crash, patched
    from symlib.prelude import import_repo_networking
    import_repo_networking()
    import skepticoin.scripts.utils as utils

    def texts():
        old = _mk(wl, [2, 1, 0, 0], False)
        new = _mk(wl, [2, 2, 1, 0], False)
        fo, fn = io.StringIO(), io.StringIO()
        old.dump(fo)
        new.dump(fn)
        return old, new, fo.getvalue(), fn.getvalue()

    def total_ops() -> int:
        old, new, to, tn = texts()
        fs = MemFS({"wallet.json": to}, -1, True)
        with patched(wl, fs):
            wl.save_wallet(new)
        return fs.ops
    TOTAL = total_ops()

    def real_crash_run(crash_at: int, had_old: bool, stale_temp: bool = False) -> bool:
        """Replay on the real file system: a child process runs the real save_wallet in a scratch directory and dies
        (os._exit) before file operation number crash_at; the parent then reads wallet.json."""
        import multiprocessing as mp
        import os
        import tempfile
        import shutil
        old, new, to, tn = texts()
        d = tempfile.mkdtemp(prefix="c15-crash-")
        try:
            if had_old:
                with open(os.path.join(d, "wallet.json"), "w") as f:
                    f.write(to)
            if stale_temp:
                with open(os.path.join(d, "wallet.json.new"), "w") as f:
                    f.write(tn + tn + "leftover")

            def child():
                os.chdir(d)
                ops = [0]

                def op():
                    if ops[0] == crash_at:
                        os._exit(0)
                    ops[0] += 1
                import builtins
                real_open = builtins.open

                class FW:
                    def __init__(s, f):
                        s.f = f

                    def write(s, t):
                        op()
                        return s.f.write(t)

                    def __enter__(s):
                        return s

                    def __exit__(s, *a):
                        op()
                        s.f.close()
                        return False

                def opener(name, mode="r"):
                    if "w" in mode:
                        op()
                    f = real_open(name, mode)
                    return FW(f) if "w" in mode else f

                class FakeOs:
                    def __getattr__(s, n):
                        return getattr(os, n)

                    @staticmethod
                    def replace(a, b):
                        op()
                        return os.replace(a, b)
                wl.open = opener
                wl.os = FakeOs()
                wl.save_wallet(new)
                os._exit(0)
            p = mp.get_context("fork").Process(target=child)
            p.start()
            p.join(60)
            path = os.path.join(d, "wallet.json")
            cur = open(path).read() if os.path.exists(path) else None
            if cur is None:
                return not had_old
            if not (cur == tn or (had_old and cur == to)):
                return False
            # restart through the program's own start-up path, in a second child (it changes directory)
            def child2():
                os.chdir(d)
                try:
                    w = utils.open_or_init_wallet()
                    os._exit(0 if _view(w) in (_view(old), _view(new)) else 7)
                except Exception:
                    os._exit(8)
            p2 = mp.get_context("fork").Process(target=child2)
            p2.start()
            p2.join(60)
            return p2.exitcode == 0
        finally:
            shutil.rmtree(d, ignore_errors=True)

    def check_atomic_save(crash_at: int, eager: bool, had_old: bool, stale_temp: bool = False) -> bool:
        """
        post: _
        """
        if not (0 <= crash_at <= TOTAL + 4):
            return True
        if real:
            return real_crash_run(crash_at, had_old, stale_temp)
        old, new, to, tn = texts()
        files = {"wallet.json": to} if had_old else {}
        if stale_temp:
            # an earlier save died between writing the side file and the rename: a longer leftover is lying around
            files["wallet.json.new"] = tn + tn + "leftover"
        fs = MemFS(files, crash_at, eager)
        crashed = False
        with patched(wl, fs):
            try:
                wl.save_wallet(new)
            except Crash:
                crashed = True
        if twin:
            return not crashed
        cur = fs.files.get("wallet.json")
        if not crashed:
            if not (cur == tn and "wallet.json.new" not in fs.files):
                return False
        elif cur is None:
            return not had_old
        elif not (cur == tn or (had_old and cur == to)):
            return False
        # restart: the program's own start-up path (scripts.utils.open_or_init_wallet) on what the crash left behind must
        # come up with the complete previous or the complete new wallet
        fs.crash_at = -1
        with patched(utils, fs):
            try:
                w = utils.open_or_init_wallet()
            except Exception:
                return False
        if _view(w) != _view(new) and not (had_old and crashed and _view(w) == _view(old)):
            return False
        cur2 = fs.files.get("wallet.json")
        return cur2 == tn or (had_old and cur2 == to)

    return check_atomic_save, {"crash_at": TOTAL + 4, "eager": True, "had_old": True, "stale_temp": False}


def obligations(tier: str, known: List[str]) -> List[Ob]:
    T = 1500 if tier == "thorough" else 600
    excl = KEY_F7 in known
    obs: List[Ob] = []
    obs.append(Ob("a.fidelity[dump-load]", C_FID, "fidelity", {}, timeout=T))
    for nf, nm in enumerate(("new text", "same text as the first request", "text an older key carries")):
        obs.append(Ob("b.handouts[get/restore/save-load/get,second request: %s]" % nm, C_ONCE, "handouts",
                      {"exclude_known": excl, "note_fixed": nf}, timeout=T))
    obs.append(twin_of(obs[-1], timeout=300))
    obs.append(Ob("b.generate-keys", C_ONCE, "generate", {}, timeout=T))
    obs.append(Ob("c.balance", C_BAL, "balance", {}, timeout=T))
    for ko in range(4):
        obs.append(Ob("c.balance[one-key-paid-twice-in-one-transaction,key=%d]" % ko, C_BAL, "balance", {"extra": True, "ko_fixed": ko}, timeout=T))
    if tier == "thorough":
        obs.append(Ob("c.balance[one-key-paid-twice-in-one-transaction,any keys]", C_BAL, "balance", {"extra": True}, timeout=T))
    obs.append(Ob("d.atomic-save", C_ATOM, "atomic_save", {}, timeout=T))
    obs.append(twin_of(obs[-1], timeout=300))
    obs.append(Ob("finding[restore-after-exhausted-handout]", C_ONCE, "handouts", {"exclude_known": False, "only_known": True},
                  expect="refuted", role="finding", finding_key=KEY_F7, timeout=300))
    return obs


def _classify(ob: Ob, model, detail: str):
    try:
        members = [model["m0"], model["m1"], model["m2"], model["m3"]]
        if ob.builder == "handouts" and model["op"] == 1 and 1 not in members:
            return KEY_F7
    except Exception:
        pass
    return None


def replay(ob: Ob, model):
    return generic_replay(sys.modules[__name__], ob, model, classify=_classify)

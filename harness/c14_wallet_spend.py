"""C14 - the wallet builds exact, valid, non-overlapping spends or changes nothing.

The real create_spend_transaction / sign_transaction run on the SymBlock world's head with a wallet
owning two of the keys. Symbolic: the three wallet-owned values, the amount (> 0), the fee (>= 0),
which wallet outputs are already marked used, and a second request after the first.
Oracle per call: returns => passes both transaction validators at the head, output[0] = (amount,
recipient), change = inputs - amount - fee to the change key and absent iff zero, inputs wallet-owned
and disjoint from the used-set, used-set grows by exactly the inputs; raises => used-set unchanged;
and it must return whenever the not-yet-used wallet outputs cover amount + fee.
"""
from __future__ import annotations

import sys
from typing import Any, List, Optional, Tuple

from symlib.runner import Ob
from symlib.common import generic_replay, twin_of
from symlib.symblock import World, MAX_SASHIMI
from symlib.world import tok, TX

META = {
    "explanation": "create_spend_transaction + sign_transaction executed for symbolic balances, amount, fee and used-set, twice in a row "
                   "(spend after spend, failed attempt then affordable spend); every returned transaction is fed to the real "
                   "validate_non_coinbase_transaction_by_itself / _in_coinstate at the head.",
    "technique": "CrossHair symbolic execution of the wallet's spend builder and the transaction validators",
    "bounds": "3 wallet-owned outputs over 2 wallet keys + foreign outputs, 2 successive calls, values with total <= MAX",
    "outside": "wallets needing so many inputs that the transaction exceeds the 200,000-byte limit (~1977 inputs)",
    "stubs": ["ideal signing key in skepticoin.wallet.ecdsa", "stubs as C01"],
    "assumptions": ["sum of all unspent values <= documented maximum (C02)"],
}

C_OK = "returned transaction passes full validation, pays exactly the amount, returns exactly inputs - amount - fee as change (none when zero), spends only wallet-owned outputs not used before"
C_FAIL = "insufficient funds leaves the used-output record unchanged, so a later affordable spend still succeeds"


def _refkey(r: Any) -> Tuple[bytes, int]:
    return (r.hash, r.index)


def spend_twice(ncalls: int = 2, twin: bool = False, real: bool = False):
    import skepticoin.wallet  # noqa  (must be loaded before the ideal ecdsa is installed)
    W = World(real=real, served_head="P")
    dt, cons = W.dt, W.cons
    import skepticoin.wallet as wl

    def priv(i: int) -> bytes:
        if real:
            return W._sks[i].to_string()
        from symlib.stubs.idealsig import make_key
        return make_key(i)[1]

    def check_spend_twice(v0: int, v1: int, v2: int, a1: int, f1: int, a2: int, f2: int, u0: bool, u1: bool, u2: bool,
                          a3: int = 1, f3: int = 0) -> bool:
        """
        post: _
        """
        if ncalls < 3 and not (a3 == 1 and f3 == 0):
            return True
        if not (1 <= a3 <= 2 * 10 ** 15 and 0 <= f3 <= 2 * 10 ** 15):
            return True
        for v in (v0, v1, v2):
            if not (1 <= v <= 6 * 10 ** 14):
                return True
        if not (1 <= a1 <= 2 * 10 ** 15 and 0 <= f1 <= 2 * 10 ** 15 and 1 <= a2 <= 2 * 10 ** 15 and 0 <= f2 <= 2 * 10 ** 15):
            return True
        if not real:
            W._install_crypto()
        pv = [v0, v1, v2, 9]
        cs = W.state(pv)
        head = cs.current_chain_hash
        wallet = wl.Wallet({W.keys[0].public_key: priv(0), W.keys[1].public_key: priv(1)}, [W.keys[1].public_key],
                           {W.keys[0].public_key: "used"})
        owned = [(dt.OutputReference(tok(TX, 10), 0), v0), (dt.OutputReference(tok(TX, 10), 1), v1), (dt.OutputReference(tok(TX, 11), 0), v2)]
        for (r, _), u in zip(owned, (u0, u1, u2)):
            if u:
                wallet.spent_transaction_outputs.add(r)
        recipient, change = W.keys[2], W.keys[3]
        for (amount, fee) in ((a1, f1), (a2, f2), (a3, f3))[:ncalls]:
            used_before = [_refkey(r) for r in wallet.spent_transaction_outputs]
            available = 0
            for (r, v) in owned:
                if _refkey(r) not in used_before:
                    available += v
            try:
                tx = wl.create_spend_transaction(wallet, cs, amount, fee, recipient, change)
                returned = True
            except Exception:
                tx = None
                returned = False
            used_after = [_refkey(r) for r in wallet.spent_transaction_outputs]
            if twin:
                if returned:
                    return False
                continue
            if not returned:
                if sorted(used_after) != sorted(used_before):
                    return False
                if available >= amount + fee:
                    return False           # affordable, yet refused
                continue
            # returned: full validation at the head
            try:
                cons.validate_non_coinbase_transaction_by_itself(tx)
                cons.validate_non_coinbase_transaction_in_coinstate(tx, head, cs)
            except Exception:
                return False
            ins = [_refkey(i.output_reference) for i in tx.inputs]
            tin = 0
            for k in ins:
                hit = [v for (r, v) in owned if _refkey(r) == k]
                if len(hit) != 1 or k in used_before or ins.count(k) != 1:
                    return False
                tin += hit[0]
            if len(tx.outputs) < 1 or tx.outputs[0].value != amount or tx.outputs[0].public_key.public_key != recipient.public_key:
                return False
            rest = tin - amount - fee
            if rest < 0:
                return False
            if rest == 0:
                if len(tx.outputs) != 1:
                    return False
            else:
                if len(tx.outputs) != 2 or tx.outputs[1].value != rest or tx.outputs[1].public_key.public_key != change.public_key:
                    return False
            if sorted(used_after) != sorted(used_before + ins):
                return False
        return True

    return check_spend_twice, {"v0": 10, "v1": 10, "v2": 5, "a1": 7, "f1": 3, "a2": 100, "f2": 0, "u0": False, "u1": False, "u2": False,
                               "a3": 1, "f3": 0}


def obligations(tier: str, known: List[str]) -> List[Ob]:
    T = 1800 if tier == "thorough" else 900
    o = Ob("two-successive-requests", C_OK + "; " + C_FAIL, "spend_twice", {"ncalls": 2}, timeout=T)
    obs = [o, twin_of(o, timeout=300)]
    if tier == "thorough":
        obs.append(Ob("three-successive-requests", C_OK + "; " + C_FAIL, "spend_twice", {"ncalls": 3}, timeout=3000))
    return obs


def _classify(ob: Ob, model, detail: str):
    return None


def replay(ob: Ob, model):
    return generic_replay(sys.modules[__name__], ob, model, classify=_classify)

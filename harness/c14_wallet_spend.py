"""C14 - the wallet builds exact, valid, non-overlapping spends or changes nothing.

The real create_spend_transaction / sign_transaction run on the SymBlock world's head with a wallet
owning two of the keys. Symbolic: the three wallet-owned values, the amount (> 0), the fee (>= 0),
which wallet outputs are already marked used, and a second request after the first.
Oracle per call: returns => passes both transaction validators at the head, output[0] = (amount,
recipient), change = inputs - amount - fee to the change key and absent iff zero, inputs wallet-owned
and disjoint from the used-set, used-set grows by exactly the inputs; raises => used-set unchanged;
and it must return whenever the not-yet-used wallet outputs cover amount + fee.
"""
from __future__ import annotations

import sys
from typing import Any, List, Optional, Tuple

from symlib.runner import Ob
from symlib.common import generic_replay, twin_of
from symlib.symblock import World, MAX_SASHIMI
from symlib.world import tok, TX

META = {
    "explanation": "create_spend_transaction + sign_transaction executed for symbolic balances, amount, fee and used-set, twice in a row "
                   "(spend after spend, failed attempt then affordable spend); every returned transaction is fed to the real "
                   "validate_non_coinbase_transaction_by_itself / _in_coinstate at the head.",
    "technique": "CrossHair symbolic execution of the wallet's spend builder and the transaction validators",
    "bounds": "3 wallet-owned outputs over 2 wallet keys + foreign outputs, 2 successive calls (3 thorough), values with total <= MAX; variants: head after a "
              "confirmed two-input consolidation; the sibling fork overtook through add_block_no_validation after a balance look-up (wallet also "
              "owns the key whose outputs differ between the branches; 1 call quick, 2 thorough); used output that exists only on P with "
              "requests at F then P",
    "outside": "wallets needing so many inputs that the transaction exceeds the 200,000-byte limit (~1977 inputs)",
    "stubs": ["ideal signing key in skepticoin.wallet.ecdsa", "stubs as C01"],
    "assumptions": ["sum of all unspent values <= documented maximum (C02)"],
}

C_OK = "returned transaction passes full validation, pays exactly the amount, returns exactly inputs - amount - fee as change (none when zero), spends only wallet-owned outputs not used before"
C_FAIL = "insufficient funds leaves the used-output record unchanged, so a later affordable spend still succeeds"


def _refkey(r: Any) -> Tuple[bytes, int]:
    return (r.hash, r.index)


def sg_key(W: World, real: bool) -> Any:
    """change address: a key outside the wallet and outside the world's owners"""
    return W.sg.SECP256k1PublicKey(bytes([0xCE]) * 64) if not real else W.keys[2]


def spend_twice(ncalls: int = 2, variant: str = "plain", twin: bool = False, real: bool = False):
    """variant: "plain"; "consolidated" = the head is one block further, in which two outputs of one wallet key were spent by one
    confirmed transaction; "overtaken" = one more block on the sibling fork made it the head before the requests;
    "reorg" = the wallet also owns the reward key and the second of three requests is made while the
    sibling fork is the head: an earlier spend used P's reward output, then the heads are F, P (, P)."""
    import skepticoin.wallet  # noqa  (must be loaded before the ideal ecdsa is installed)
    W = World(real=real, served_head="P")
    dt, cons = W.dt, W.cons
    import skepticoin.wallet as wl

    def priv(i: int) -> bytes:
        if real:
            return W._sks[i].to_string()
        from symlib.stubs.idealsig import make_key
        return make_key(i)[1]

    def check_spend_twice(v0: int, v1: int, v2: int, a1: int, f1: int, a2: int, f2: int, u0: bool, u1: bool, u2: bool,
                          a3: int = 1, f3: int = 0) -> bool:
        """
        post: _
        """
        if ncalls < 3 and not (a3 == 1 and f3 == 0):
            return True
        if ncalls < 2 and not (a2 == 1 and f2 == 0):
            return True
        if not (1 <= a3 <= 2 * 10 ** 15 and 0 <= f3 <= 2 * 10 ** 15):
            return True
        for v in (v0, v1, v2):
            if not (1 <= v <= 6 * 10 ** 14):
                return True
        if not (1 <= a1 <= 2 * 10 ** 15 and 0 <= f1 <= 2 * 10 ** 15 and 1 <= a2 <= 2 * 10 ** 15 and 0 <= f2 <= 2 * 10 ** 15):
            return True
        if not real:
            W._install_crypto()
        pv = [v0, v1, v2, 9]
        cs = W.state(pv)
        head = cs.current_chain_hash
        keypairs = {W.keys[0].public_key: priv(0), W.keys[1].public_key: priv(1)}
        if variant in ("reorg", "overtaken"):
            keypairs[W.keys[3].public_key] = priv(3)       # the key whose outputs differ between the two branches
        wallet = wl.Wallet(keypairs, [W.keys[1].public_key], {W.keys[0].public_key: "used"})
        states = [cs, cs, cs]
        if variant in ("consolidated", "overtaken"):
            # the balance at the old head was looked at before the next block arrived (wallets display it): whatever the node
            # remembered from that must not leak into the state after the block
            _ = cs.public_key_balances_by_hash[cs.current_chain_hash]
        if variant == "consolidated":
            cbq = W.env.coinbase(W.h, [dt.Output(1, W.keys[2])], tok(TX, 25))
            q = W.make_tx(tok(TX, 26), [(0, 0, 0), (2, 0, 0)], [(v0 + v2, 0)], pv, cbq.hash(), None)     # (T10,0)+(T11,0), both K0 -> K0
            cs = cs.add_block_no_validation(W.candidate(cs, [cbq, q], 3000))
            head = cs.current_chain_hash
            states = [cs, cs, cs]
        elif variant == "overtaken":
            # the sibling fork overtakes with one more block (paying a wallet key): the requests are made on the new branch
            cbq = W.env.coinbase(W.h, [dt.Output(3, W.keys[1])], tok(TX, 25))
            cs = cs.add_block_no_validation(W.candidate(cs, [cbq], 3000, parent=W.F))
            if cs.current_chain_hash == W.P.hash():
                return False
            states = [cs, cs, cs]
        elif variant == "reorg":
            on_f = W.env.cstate.CoinState(cs.block_by_hash, cs.unspent_transaction_outs_by_hash, cs.block_by_height_by_hash, cs.heads, W.F.hash())
            states = [on_f, cs, cs]
        for (r, u) in zip([dt.OutputReference(tok(TX, 10), 0), dt.OutputReference(tok(TX, 10), 1), dt.OutputReference(tok(TX, 11), 0)], (u0, u1, u2)):
            if u and variant == "plain":
                wallet.spent_transaction_outputs.add(r)
        recipient, change = W.keys[2], sg_key(W, real)
        ghost: List[Tuple[bytes, int]] = []       # every output some earlier returned spend from this wallet used
        if variant == "reorg":
            # an earlier spend (made while P was the head) used P's reward output, which does not exist on the sibling fork
            r_cbp = dt.OutputReference(W.cbP.hash(), 0)
            wallet.spent_transaction_outputs.add(r_cbp)
            ghost.append(_refkey(r_cbp))
        for n_call, (amount, fee) in enumerate(((a1, f1), (a2, f2), (a3, f3))[:ncalls]):
            cs = states[n_call]
            head = cs.current_chain_hash
            owned = []
            for (ref, out) in cs.unspent_transaction_outs_by_hash[head].items():
                if out.public_key.public_key in keypairs:
                    owned.append((ref, out.value))
            used_before = [_refkey(r) for r in wallet.spent_transaction_outputs]
            available = 0
            for (r, v) in owned:
                if _refkey(r) not in used_before:
                    available += v
            try:
                tx = wl.create_spend_transaction(wallet, cs, amount, fee, recipient, change)
                returned = True
            except Exception:
                tx = None
                returned = False
            used_after = [_refkey(r) for r in wallet.spent_transaction_outputs]
            if twin:
                if returned:
                    return False
                continue
            if not returned:
                if sorted(used_after) != sorted(used_before):
                    return False
                if available >= amount + fee:
                    return False           # affordable, yet refused
                continue
            # returned: full validation at the head
            try:
                cons.validate_non_coinbase_transaction_by_itself(tx)
                cons.validate_non_coinbase_transaction_in_coinstate(tx, head, cs)
            except Exception:
                return False
            ins = [_refkey(i.output_reference) for i in tx.inputs]
            tin = 0
            for k in ins:
                hit = [v for (r, v) in owned if _refkey(r) == k]
                if len(hit) != 1 or k in used_before or ins.count(k) != 1 or k in ghost:
                    return False
                tin += hit[0]
            ghost = ghost + ins
            if len(tx.outputs) < 1 or tx.outputs[0].value != amount or tx.outputs[0].public_key.public_key != recipient.public_key:
                return False
            rest = tin - amount - fee
            if rest < 0:
                return False
            if rest == 0:
                if len(tx.outputs) != 1:
                    return False
            else:
                if len(tx.outputs) != 2 or tx.outputs[1].value != rest or tx.outputs[1].public_key.public_key != change.public_key:
                    return False
            if sorted(used_after) != sorted(used_before + ins):
                return False
        return True

    return check_spend_twice, {"v0": 10, "v1": 10, "v2": 5, "a1": 7, "f1": 3, "a2": 100, "f2": 0, "u0": False, "u1": False, "u2": False,
                               "a3": 1, "f3": 0}


def obligations(tier: str, known: List[str]) -> List[Ob]:
    T = 1800 if tier == "thorough" else 900
    o = Ob("two-successive-requests", C_OK + "; " + C_FAIL, "spend_twice", {"ncalls": 2}, timeout=T)
    obs = [o, twin_of(o, timeout=300)]
    obs.append(Ob("requests-after-a-confirmed-consolidation", C_OK + "; " + C_FAIL, "spend_twice", {"ncalls": 2, "variant": "consolidated"}, timeout=T))
    # seven wallet-owned outputs on the new branch: one request in the quick tier, two in the thorough tier
    obs.append(Ob("requests-after-the-sibling-fork-overtook", C_OK + "; " + C_FAIL, "spend_twice",
                  {"ncalls": 2 if tier == "thorough" else 1, "variant": "overtaken"}, timeout=2 * T))
    obs.append(Ob("requests-across-a-reorganisation", C_OK + "; " + C_FAIL, "spend_twice", {"ncalls": 2, "variant": "reorg"}, timeout=2 * T))
    if tier == "thorough":
        obs.append(Ob("three-successive-requests", C_OK + "; " + C_FAIL, "spend_twice", {"ncalls": 3}, timeout=3000))
    return obs


def _classify(ob: Ob, model, detail: str):
    return None


def replay(ob: Ob, model):
    return generic_replay(sys.modules[__name__], ob, model, classify=_classify)

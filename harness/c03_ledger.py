"""C03 - the ledger state at a block is a function of that block's chain alone.

a  step + frame + snapshot immutability: one real add_block_no_validation of a block with symbolic
   transactions on a symbolic choice of stored parent (root / parent / sibling fork, any of them the
   served head): the new block's unspent map equals an independent reference application to the
   PARENT's map; every other entry of every per-block map is the identical object; the old CoinState
   and everything reachable from it is unchanged.
b  balance-view step: if (unspent map, per-key balances) are consistent, they still are after the real
   pkb_apply_block + uto_apply_block; consistent = each key's value is the sum, and its reference list a
   duplicate-free enumeration, of exactly the unspent outputs paying that key. Owners symbolic.
c  replay view: public_key_balances_by_hash(h) / Wallet.get_balance visit only ancestors of h and equal
   the per-key sums over the unspent map stored at h, with competing forks stored alongside.
d  bounded histories: every block tree of <= 5 blocks with spends, two parent-before-child arrival
   orders (second order symbolic): per-block unspent maps and balances are equal across orders.
"""
from __future__ import annotations

import sys
from typing import Any, Dict, List, Optional, Tuple

from symlib.runner import Ob
from symlib.common import generic_replay, twin_of
from symlib.symblock import World
from symlib.world import Env, tok, TX, BLK, ZERO32, snapshot_state, same_snapshot

META = {
    "explanation": "add_block_no_validation / uto_apply_* / pkb_apply_* / PublicKeyBalances executed on symbolic transactions and "
                   "parent choices; results compared with an independent reference application and a per-key recount of the unspent map; "
                   "object identity of all untouched entries and of the old state (snapshot immutability); arrival-order independence on "
                   "all trees of <= 5 blocks.",
    "technique": "CrossHair symbolic execution of the ledger update functions (one step from an arbitrary consistent state + bounded histories)",
    "bounds": "step: 3 stored blocks, new block with reward + <= 1 spend of <= 2 inputs / <= 2 outputs; balance step: 4 unspent entries over 3 "
              "keys; histories: <= 5 blocks (quick 4), one optional spend per block",
    "outside": "larger trees (covered by the step: the new entry depends on the parent's entry only)",
    "stubs": ["PyMap for immutables.Map", "preset ids"],
    "assumptions": ["the block satisfies the validity precondition of C01 (spent outputs exist in the parent's map, distinct)",
                    "transaction ids are fresh (collision-freeness)"],
}

C_FUN = "unspent set at every stored block equals the replay of its ancestors, whatever forks are stored and whichever is the head"
C_BAL = "each key's balance equals the sum, and lists exactly the references, of the unspent outputs paying that key"
C_IMM = "adding a block never changes any chain-state snapshot obtained earlier"
C_ORD = "independent of the arrival order of blocks"


def _ref_apply(umap_items: List[Tuple[Any, Any]], block: Any, OutRef: Any) -> List[Tuple[Tuple[bytes, int], Any]]:
    """Reference: remove spent, add created - as plain association list keyed by (id, index)."""
    cur = [((k.hash, k.index), v) for (k, v) in umap_items]
    for n, tx in enumerate(block.transactions):
        if n > 0:
            for i in tx.inputs:
                key = (i.output_reference.hash, i.output_reference.index)
                cur = [(k, v) for (k, v) in cur if not (k[0] == key[0] and k[1] == key[1])]
        for j, o in enumerate(tx.outputs):
            cur.append(((tx.hash(), j), o))
    return cur


def _same_assoc(m: Any, ref: List[Tuple[Tuple[bytes, int], Any]]) -> bool:
    items = list(m.items())
    if len(items) != len(ref):
        return False
    for (k, v) in ref:
        hit = None
        for (k2, v2) in items:
            if k2.hash == k[0] and k2.index == k[1]:
                hit = v2
        if hit is None or hit is not v:
            return False
    return True


def step(parent: str, served_head: str, nin: int, twin: bool = False, real: bool = False):
    W = World(real=real, served_head=served_head)
    dt = W.dt

    def check_step(v0: int, v1: int, v2: int, o0: int, o1: int, nout: int) -> bool:
        """
        post: _
        """
        if not (1 <= v0 <= 10 ** 15 and 1 <= v1 <= 10 ** 15 and 1 <= v2 <= 10 ** 15 and 0 <= o0 <= 10 ** 15 and 0 <= o1 <= 10 ** 15):
            return True
        if not (0 <= nout <= 2):
            return True
        if not real:
            W._install_crypto()
        pv = [v0, v1, v2, 8]
        pre = W.state(pv)
        par = {"R": W.R, "P": W.P, "F": W.F}[parent]
        snap = snapshot_state(pre)
        entries_before = {n: list(getattr(pre, n).items()) for n in ("block_by_hash", "unspent_transaction_outs_by_hash", "block_by_height_by_hash")}
        parent_map_items = list(pre.unspent_transaction_outs_by_hash[par.hash()].items())
        cb = W.env.coinbase(par.height + 1, [dt.Output(9, W.keys[3]), dt.Output(o0, W.keys[1])], tok(TX, 20))     # two reward outputs
        ins = [(0, 0, 0), (1, 1, 0)][:nin]          # (T10,0) and (T10,1): unspent at R, P and F alike
        outs = [(o0, 1), (o1, 2)][:nout]
        txs = [cb]
        if nin > 0:
            txs.append(W.make_tx(tok(TX, 21), ins, outs, pv, cb.hash(), None))
        blk = W.env.block(par.height + 1, par.hash(), txs, tok(BLK, 5), ts=3000)
        post = pre.add_block_no_validation(blk)
        if twin:
            return False
        # function of the parent's entry alone
        if not _same_assoc(post.unspent_transaction_outs_by_hash[blk.hash()], _ref_apply(parent_map_items, blk, dt.OutputReference)):
            return False
        # frame: all other entries are the identical objects
        for n, before in entries_before.items():
            m = getattr(post, n)
            if len(m) != len(before) + 1:
                return False
            for (k, v) in before:
                if m[k] is not v:
                    return False
        # snapshot immutability
        if not same_snapshot(snapshot_state(pre), snap):
            return False
        if list(pre.unspent_transaction_outs_by_hash[par.hash()].items()) != parent_map_items:
            return False
        return True

    return check_step, {"v0": 5, "v1": 6, "v2": 7, "o0": 3, "o1": 2, "nout": 2}


# ------------------------------------------------------------------------------------------------ b


def _consistent(env: Env, umap: Any, bal: Any, keys: List[Any]) -> bool:
    """Every key's balance = sum and duplicate-free reference list of exactly the unspent outputs paying it."""
    for key in keys:
        want: List[Tuple[bytes, int]] = []
        total = 0
        for (ref, out) in umap.items():
            if out.public_key.public_key == key.public_key:
                want.append((ref.hash, ref.index))
                total += out.value
        if key in bal:
            pk = bal[key]
            if pk.value != total:
                return False
            got = [(r.hash, r.index) for r in pk.output_references]
            if len(got) != len(want):
                return False
            for g in got:
                if got.count(g) != 1 or g not in want:
                    return False
        elif want:
            return False
    # no balance entry for keys outside the universe
    for (k, _) in bal.items():
        if not any(k.public_key == kk.public_key for kk in keys):
            return False
    return True


def balance_step(nin: int, nout: int, pin: bool = True, twin: bool = False, real: bool = False):
    env = Env(real=real)
    dt, sg, bal = env.dt, env.sg, env.bal
    keys = [sg.SECP256k1PublicKey(bytes([0xC0 + i]) * 64) for i in range(3)]

    def check_balance_step(ow0: int, ow1: int, ow2: int, ow3: int, v0: int, v1: int, v2: int, v3: int,
                           no0: int, no1: int, nv0: int, nv1: int, cbo: int) -> bool:
        """
        post: _
        """
        owners = [ow0, ow1, ow2, ow3]
        vals = [v0, v1, v2, v3]
        if pin and not (ow2 == 1 and ow3 == 2):
            return True      # quick tier: the two entries that are never spent have fixed owners
        for o in owners + [no0, no1, cbo]:
            if not (0 <= o <= 2):
                return True
        for v in vals + [nv0, nv1]:
            if not (0 <= v <= 10 ** 15):
                return True
        refs = [dt.OutputReference(tok(TX, 10), 0), dt.OutputReference(tok(TX, 10), 1), dt.OutputReference(tok(TX, 11), 0),
                dt.OutputReference(tok(TX, 12), 0)]
        umap = env.mk_map([(r, dt.Output(v, keys[o])) for r, v, o in zip(refs, vals, owners)])
        # a consistent balance view, built independently
        pairs = []
        for ki, key in enumerate(keys):
            rs = [r for r, o in zip(refs, owners) if o == ki]
            if rs:
                tot = 0
                for v, o in zip(vals, owners):
                    if o == ki:
                        tot += v
                pairs.append((key, bal.PKBalance(tot, list(rs))))
        bmap = env.mk_map(pairs)
        if not _consistent(env, umap, bmap, keys):
            return False    # the harness's own construction must satisfy Inv
        cb = env.coinbase(2, [dt.Output(11, keys[cbo])], tok(TX, 20))
        spend = dt.Transaction([dt.Input(refs[j], sg.SECP256k1Signature(bytes([7]) * 64)) for j in range(nin)],
                               [dt.Output(v, keys[o]) for v, o in [(nv0, no0), (nv1, no1)][:nout]], cached_hash=tok(TX, 21))
        blk = env.block(2, tok(BLK, 1), [cb, spend] if nin > 0 else [cb], tok(BLK, 5))
        b2 = bal.pkb_apply_block(umap, bmap, blk)
        u2 = bal.uto_apply_block(umap, blk)
        if twin:
            return False
        if not _consistent(env, u2, b2, keys):
            return False
        # the inputs' views are untouched (persistent maps)
        return _consistent(env, umap, bmap, keys)

    return check_balance_step, {"ow0": 0, "ow1": 0, "ow2": 1, "ow3": 2, "v0": 5, "v1": 6, "v2": 7, "v3": 8, "no0": 1, "no1": 0,
                                "nv0": 3, "nv1": 4, "cbo": 2}


# ------------------------------------------------------------------------------------------------ c


def replay_view(at: str, served_head: str, twin: bool = False, real: bool = False):
    W = World(real=real, served_head=served_head)
    dt = W.dt
    import skepticoin.wallet as wl
    from symlib.world import ReadLog

    def check_replay_view(v0: int, v1: int, v2: int, v3: int, fv: int) -> bool:
        """
        post: _
        """
        for v in (v0, v1, v2, v3, fv):
            if not (1 <= v <= 10 ** 15):
                return True
        if not real:
            W._install_crypto()
        pv = [v0, v1, v2, v3]
        cs = W.state(pv, fv)
        blk = {"R": W.R, "P": W.P, "F": W.F}[at]
        log: List[Any] = []
        cs.public_key_balances_by_hash.block_by_hash = ReadLog(cs.public_key_balances_by_hash.block_by_hash, log)
        view = cs.public_key_balances_by_hash[blk.hash()]
        if twin:
            return False
        anc = {"R": [W.R.hash()], "P": [W.P.hash(), W.R.hash()], "F": [W.F.hash(), W.R.hash()]}[at]
        for k in log:
            if k not in anc:
                return False
        umap = cs.unspent_transaction_outs_by_hash[blk.hash()]
        if not _consistent(W.env, umap, view, W.keys):
            return False
        # asked again, and asked for an ancestor AFTER its descendant: same rule
        for later in (blk, W.R):
            v2 = cs.public_key_balances_by_hash[later.hash()]
            if not _consistent(W.env, cs.unspent_transaction_outs_by_hash[later.hash()], v2, W.keys):
                return False
        if at == served_head:
            wallet = wl.Wallet({W.keys[0].public_key: b"", W.keys[2].public_key: b"", bytes([9]) * 64: b""},
                               [W.keys[2].public_key, bytes([9]) * 64], {W.keys[0].public_key: "x"})
            total = 0
            for (_, o) in umap.items():
                if o.public_key.public_key in (W.keys[0].public_key, W.keys[2].public_key):
                    total += o.value
            if wallet.get_balance(cs) != total:
                return False
        return True

    return check_replay_view, {"v0": 5, "v1": 6, "v2": 7, "v3": 8, "fv": 9}


# ------------------------------------------------------------------------------------------------ d


def histories(parents_tail: Tuple[int, ...], mask: int, twin: bool = False, real: bool = False):
    n = 2 + len(parents_tail)
    env = Env(real=real)
    dt, sg = env.dt, env.sg
    key = sg.SECP256k1PublicKey(bytes([0xC1]) * 64)

    def build(parents: List[int], spend: List[bool]):
        height = [0] * len(parents)
        blocks = []
        for i in range(len(parents)):
            if i > 0:
                height[i] = height[parents[i]] + 1
            cb = env.coinbase(height[i], [dt.Output(10 + i, key)], tok(TX, 50 + i))
            txs = [cb]
            if i > 0 and spend[i]:
                # spends the parent's reward output
                pcb = tok(TX, 50 + parents[i])
                txs.append(dt.Transaction([dt.Input(dt.OutputReference(pcb, 0), sg.SECP256k1Signature(bytes([7]) * 64))],
                                          [dt.Output(3 + i, key)], cached_hash=tok(TX, 70 + i)))
            blocks.append(env.block(height[i], ZERO32 if i == 0 else tok(BLK, parents[i]), txs, tok(BLK, i)))
        return blocks

    def check_histories(swap_a: int, swap_b: int) -> bool:
        """
        post: _
        """
        parents = [-1, 0] + list(parents_tail)
        spend = [bool((mask >> i) & 1) for i in range(n)]
        # a block whose parent's reward is spent by a sibling too is fine (different forks); by the same block twice is not built
        blocks = build(parents, spend)
        order1 = list(range(n))
        # second order: swap two adjacent-in-time blocks if that keeps parents before children
        if not (0 <= swap_a < n and 0 <= swap_b < n):
            return True
        order2 = list(range(n))
        order2[swap_a], order2[swap_b] = order2[swap_b], order2[swap_a]
        pos = {b: i for i, b in enumerate(order2)}
        for i in range(1, n):
            if pos[parents[i]] > pos[i]:
                return True
        res = []
        early: List[Tuple[int, Any, List[Tuple[bytes, int]], int]] = []
        for oi, order in enumerate((order1, order2)):
            cs = env.empty_state()
            for i in order:
                cs = cs.add_block_no_validation(blocks[i])
                if oi == 0:
                    # the balance view is asked for BETWEEN arrivals (as wallets and explorers do) and remembered
                    view = cs.public_key_balances_by_hash[blocks[i].hash()]
                    pkb = view[key]
                    early.append((i, pkb, [(r.hash, r.index) for r in pkb.output_references], pkb.value))
            res.append(cs)
        if twin:
            return swap_a == swap_b
        a, b = res
        # on the second state the views are asked for newest block first (a descendant before its ancestors), on the first
        # one oldest first: the answer may not depend on what was asked before
        views_b = {}
        for i in reversed(range(n)):
            views_b[i] = b.public_key_balances_by_hash[blocks[i].hash()]
        for i in range(n):
            hsh = blocks[i].hash()
            ia = [((k.hash, k.index), v.value) for (k, v) in a.unspent_transaction_outs_by_hash[hsh].items()]
            ib = [((k.hash, k.index), v.value) for (k, v) in b.unspent_transaction_outs_by_hash[hsh].items()]
            if sorted(ia) != sorted(ib):
                return False
            # and equal to the replay of the block's own chain from the root
            chain = [i]
            while parents[chain[-1]] >= 0:
                chain.append(parents[chain[-1]])
            cur: List[Tuple[Tuple[bytes, int], Any]] = []
            for j in reversed(chain):
                cur = _ref_apply([(dt.OutputReference(k[0], k[1]), v) for (k, v) in cur], blocks[j], dt.OutputReference)
            if sorted(ia) != sorted(((k, v.value) for (k, v) in cur)):
                return False
            ba = a.public_key_balances_by_hash[hsh]
            bb = views_b[i]
            if ba[key].value != bb[key].value or ba[key].value != sum(v for (_, v) in ia):
                return False
            # references listed = exactly the unspent outputs (all pay the one key here)
            for view in (ba, bb):
                refs = sorted((r.hash, r.index) for r in view[key].output_references)
                if refs != sorted(k for (k, _) in ia):
                    return False
        # balance records handed out earlier were not changed by later arrivals
        for (i, pkb, refs0, val0) in early:
            if [(r.hash, r.index) for r in pkb.output_references] != refs0 or pkb.value != val0:
                return False
        return True

    return check_histories, {"swap_a": 0, "swap_b": 0}


def obligations(tier: str, known: List[str]) -> List[Ob]:
    thorough = tier == "thorough"
    T = 1500 if thorough else 600
    obs: List[Ob] = []
    for parent in ("R", "P", "F"):
        for head in ("P", "F"):
            for nin in (0, 1, 2):
                if not thorough and nin == 1 and not (parent == "P" and head == "F"):
                    continue
                obs.append(Ob("a.step[parent=%s,head=%s,inputs=%d]" % (parent, head, nin), C_FUN + "; " + C_IMM, "step",
                              {"parent": parent, "served_head": head, "nin": nin}, timeout=T))
    obs.append(twin_of(obs[0], timeout=300))
    for nin, nout in ((0, 0), (1, 1), (2, 1), (2, 2), (1, 2)):
        if not thorough and (nin, nout) == (1, 2):
            continue
        obs.append(Ob("b.balance-step[inputs=%d,outputs=%d]" % (nin, nout), C_BAL, "balance_step",
                      {"nin": nin, "nout": nout, "pin": not thorough}, timeout=T))
    obs.append(twin_of(obs[-1], timeout=300))
    for at in ("R", "P", "F"):
        for head in ("P", "F"):
            obs.append(Ob("c.replay-view[at=%s,head=%s]" % (at, head), C_FUN + "; " + C_BAL, "replay_view", {"at": at, "served_head": head}, timeout=T))
    obs.append(twin_of(obs[-1], timeout=300))
    import itertools
    first = None
    for n in ((2, 3, 4, 5) if thorough else (2, 3, 4)):
        for tail in itertools.product(*[range(0, i + 2) for i in range(n - 2)]):
            for mask in ((2 ** n - 2, 0b01010, 0b10100) if thorough else (2 ** n - 2,)):
                o = Ob("d.histories[parents=%s,spends=%s]" % ("0" + "".join(map(str, tail)), bin(mask)[2:]), C_ORD + "; " + C_FUN, "histories",
                       {"parents_tail": tuple(tail), "mask": mask}, timeout=T)
                obs.append(o)
                first = first or o
    obs.append(twin_of([o for o in obs if o.name.startswith("d.histories[parents=000,")][0], timeout=300))
    return obs


def replay(ob: Ob, model):
    return generic_replay(sys.modules[__name__], ob, model)

"""Synthetic worlds: real CoinState / Block / Transaction objects built directly (no mining), in
symbolic mode (PyMap, PyBytesIO, hash oracles, ideal signatures, preset id tokens) or in real mode
(immutables.Map, io.BytesIO, hashlib, scrypt, secp256k1) for replay.
"""
from __future__ import annotations

import sys
from typing import Any, Dict, List, Optional, Tuple


def tok(kind: int, n: int) -> bytes:
    """Distinct, recognisable 32-byte id token."""
    return bytes([kind, n & 0xFF]) + bytes([0xA5]) * 29 + bytes([n & 0xFF])


TX, BLK, MRK = 0x71, 0xB1, 0x3E  # token kinds: transaction id, block id, merkle root
ZERO32 = b"\x00" * 32
MAXTARGET = b"\xff" * 32


def _human_stub(b: bytes) -> str:
    return "<id>"


class Env:
    """Everything a harness needs from the repository, with the stubs of the chosen mode installed."""

    def __init__(self, real: bool = False, networking: bool = False, horizon_off: bool = True):
        from symlib.prelude import import_repo, import_repo_networking
        if networking:
            import_repo_networking()
        else:
            import_repo()
        import skepticoin.coinstate as cstate
        import skepticoin.balances as bal
        import skepticoin.consensus as cons
        import skepticoin.datatypes as dt
        import skepticoin.signing as sg
        import skepticoin.serialization as ser
        self.real = real
        self.cstate, self.bal, self.cons, self.dt, self.sg, self.ser = cstate, bal, cons, dt, sg, ser
        if real:
            import immutables
            import io
            self.Map = immutables.Map
            for m in (cstate, bal, cons):
                m.immutables = immutables
            ser.BytesIO = io.BytesIO
        else:
            from symlib.stubs import pymap, pyio
            pymap.install(cstate, bal, cons)
            pyio.install(ser)
            self.Map = pymap.PyMap
            # hexlify of a symbolic id inside an error/log text realises it value by value: formatting of ids gets a
            # constant body in symbolic mode (formatting is not the subject of any property)
            for modname in ("skepticoin.consensus", "skepticoin.coinstate", "skepticoin.datatypes", "skepticoin.signing",
                            "skepticoin.networking.remote_peer", "skepticoin.networking.manager", "skepticoin.networking.local_peer",
                            "skepticoin.utils", "skepticoin.mining"):
                m = sys.modules.get(modname)
                if m is not None and hasattr(m, "human"):
                    m.human = _human_stub
        if horizon_off:
            # harness assumption: full validation applies at small heights (the gate itself is C18's subject)
            cons.MAX_KNOWN_HASH_HEIGHT = -1
            cons.KNOWN_HASHES = {}

    def mk_map(self, pairs: List[Tuple[Any, Any]]) -> Any:
        """Map from (key, value) pairs without going through a dict (a dict would hash symbolic keys)."""
        if self.real:
            return self.Map(dict(pairs))
        return self.Map(list(pairs))

    # -- objects --------------------------------------------------------------------------------
    def coinbase(self, height: int, outs: List[Any], txid: Optional[bytes], data: bytes = b"") -> Any:
        dt, sg = self.dt, self.sg
        return dt.Transaction([dt.Input(dt.OutputReference(ZERO32, 0), sg.CoinbaseData(height, data))], outs, cached_hash=txid)

    def block(self, height: Any, prev: bytes, txs: List[Any], bid: Optional[bytes], ts: Any = 1000, target: bytes = MAXTARGET,
              merkle: bytes = tok(MRK, 0), nonce: int = 0, evidence: Optional[Any] = None) -> Any:
        dt = self.dt
        ev = evidence if evidence is not None else dt.PowEvidence(ZERO32, ZERO32, ZERO32)
        return dt.Block(dt.BlockHeader(dt.BlockSummary(height, prev, merkle, ts, target, nonce), ev), txs, hash=bid)

    def state(self, block_by_hash: Dict[bytes, Any], utxo: Dict[bytes, Any], by_height: Dict[bytes, Any],
              heads: Dict[bytes, Any], current: Optional[bytes]) -> Any:
        M = self.Map
        return self.cstate.CoinState(M(block_by_hash), M(utxo), M(by_height), M(heads), current)

    def empty_state(self) -> Any:
        M = self.Map
        return self.cstate.CoinState(M(), M(), M(), M(), None)


class ReadLog:
    """Proxy around a map (PyMap or immutables.Map) recording every key looked up; used for frame-by-read-set
    arguments in both symbolic and real mode."""

    def __init__(self, inner: Any, log: List[Any]):
        self._inner = inner
        self._log = log

    def __getitem__(self, k: Any) -> Any:
        self._log.append(k)
        return self._inner[k]

    def __contains__(self, k: Any) -> bool:
        self._log.append(k)
        return k in self._inner

    def get(self, k: Any, default: Any = None) -> Any:
        self._log.append(k)
        return self._inner.get(k, default)

    def __getattr__(self, name: str) -> Any:
        return getattr(self._inner, name)

    def __len__(self) -> int:
        return len(self._inner)

    def __iter__(self) -> Any:
        return iter(self._inner)


def map_items(m: Any) -> List[Tuple[Any, Any]]:
    return list(m.items())


def snapshot_state(cs: Any) -> Tuple:
    """Deep-enough snapshot of a CoinState for before/after comparison (identity of values + keys)."""
    def snap(m: Any) -> List[Tuple[Any, int]]:
        return [(k, id(v)) for (k, v) in m.items()]
    return (snap(cs.block_by_hash), snap(cs.unspent_transaction_outs_by_hash), snap(cs.block_by_height_by_hash),
            snap(cs.heads), cs.current_chain_hash)


def same_snapshot(a: Tuple, b: Tuple) -> bool:
    if a[4] != b[4]:
        return False
    for x, y in zip(a[:4], b[:4]):
        if len(x) != len(y):
            return False
        for (k1, i1), (k2, i2) in zip(x, y):
            if k1 != k2 or i1 != i2:
                return False
    return True

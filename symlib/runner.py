"""Obligation runner: case-split instances -> forked workers -> CrossHair/z3 verdicts -> replay ->
known-findings triage -> evidence file -> exit code.

Exit codes: 0 no violation on everything explored (inconclusive obligations are listed);
            1 at least one replayed violation that known_findings.json does not list as known;
            2 harness error (vacuous harness, non-reproducing model, translator mismatch, crash).
"""
from __future__ import annotations

import ast
import importlib
import json
import multiprocessing as mp
import os
import re
import shutil
import sys
import tempfile
import time
import traceback
from collections import Counter
from dataclasses import dataclass, field, asdict
from typing import Any, Callable, Dict, List, Optional, Tuple

VERIF = os.path.dirname(os.path.dirname(os.path.abspath(__file__)))
_REPO = os.environ.get("VERIF_REPO", "/repo").rstrip("/")
EXIT_OK, EXIT_VIOLATION, EXIT_HARNESS = 0, 1, 2


@dataclass
class Ob:
    """One obligation = one solver-decided claim within stated bounds."""
    name: str                      # unique within the property
    clause: str                    # which clause of the property statement it serves
    builder: str                   # name of a builder function in the harness module
    params: Dict[str, Any] = field(default_factory=dict)
    kind: str = "e1"               # e1 (CrossHair) | e2 (z3 encoding) | anchor (concrete, non-solver)
    expect: str = "confirmed"      # "confirmed" | "refuted" (vacuity twin / known-finding witness)
    timeout: float = 120.0
    role: str = "main"             # main | twin | finding
    finding_key: Optional[str] = None   # for role == finding


@dataclass
class Res:
    name: str
    clause: str
    kind: str
    role: str
    expect: str
    status: str = "error"          # confirmed | refuted | unknown | vacuous | error
    detail: str = ""
    model: Optional[str] = None    # call text of the counterexample
    paths: int = 0
    queries: int = 0
    solver_s: float = 0.0
    wall_s: float = 0.0
    functions: List[str] = field(default_factory=list)
    replay: Optional[Dict[str, Any]] = None
    extra: Dict[str, Any] = field(default_factory=dict)


# ------------------------------------------------------------------------------------------------
# worker side


def _parse_call(text: str) -> Optional[Tuple[list, dict]]:
    """'false when calling f(1, b"x", k=[2]) (which returns False)' -> ([1, b"x"], {"k": [2]})"""
    text = re.sub(r"\s*\(which returns .*\)\s*$", "", text.strip(), flags=re.S)
    m = re.search(r"when calling (\w+)\((.*)\)$", text, re.S)
    if not m:
        return None
    src = "f(" + m.group(2) + ")"
    try:
        call = ast.parse(src, mode="eval").body
        args = [ast.literal_eval(a) for a in call.args]
        kwargs = {k.arg: ast.literal_eval(k.value) for k in call.keywords}
        return args, kwargs
    except Exception:
        return None


def _bind(fn: Callable, args: list, kwargs: dict) -> Dict[str, Any]:
    import inspect
    ba = inspect.signature(fn).bind(*args, **kwargs)
    ba.apply_defaults()
    return dict(ba.arguments)


def _collect_functions(fn: Callable, kwargs: Dict[str, Any]) -> Tuple[List[str], Any, Optional[str]]:
    """Run fn concretely under a profiler, return the repository functions entered."""
    seen: set = set()

    def prof(frame, event, arg):
        if event == "call":
            co = frame.f_code
            f = co.co_filename
            if f.startswith(_REPO + "/skepticoin/"):
                seen.add(f[len(_REPO) + 1:-3].replace("/", ".") + ":" + co.co_qualname)

    err = None
    out = None
    sys.setprofile(prof)
    try:
        out = fn(**kwargs)
    except BaseException as e:  # noqa
        err = "%s: %s" % (type(e).__name__, e)
    finally:
        sys.setprofile(None)
    return sorted(seen), out, err


def _run_e1(mod, ob: Ob, seed: int) -> Res:
    from crosshair.core_and_libs import analyze_function, run_checkables, MessageType
    from crosshair.options import DEFAULT_OPTIONS, AnalysisOptionSet
    from symlib.prelude import patch_engine
    patch_engine()
    res = Res(ob.name, ob.clause, ob.kind, ob.role, ob.expect)
    built = getattr(mod, ob.builder)(**ob.params)
    fn, witness = built if isinstance(built, tuple) else (built, None)
    # concrete witness run: measures the repository functions the harness executes and checks that
    # the harness itself is sane on a known-good input (main obligations only).
    if witness is not None:
        funcs, out, err = _collect_functions(fn, dict(witness))
        res.functions = funcs
        if ob.role == "main" and (err is not None or out is not True):
            # the concrete sanity input already fails: that is a counterexample candidate (replayed like any other)
            res.status = "refuted"
            res.detail = "concrete witness input fails: returned %r error %r" % (out, err)
            res.model = json.dumps(_jsonable(dict(witness)))
            res.extra["from_witness"] = True
            return res
    stats: Counter = Counter()
    opts = DEFAULT_OPTIONS.overlay(AnalysisOptionSet(
        per_condition_timeout=float(ob.timeout), per_path_timeout=float(ob.timeout),
        report_all=True, stats=stats, max_uninteresting_iterations=10 ** 9))
    t0 = time.time()
    msgs = list(run_checkables(analyze_function(fn, opts)))
    res.solver_s = time.time() - t0
    res.paths = int(stats.get("num_paths", 0))
    res.extra["stats"] = {k: (int(v) if isinstance(v, (int, bool)) else float(v)) for k, v in stats.items()
                          if isinstance(v, (int, float, bool))}
    if not msgs:
        res.status, res.detail = "error", "no condition analysed"
        return res
    m = msgs[0]
    st = m.state
    res.detail = (m.message or "")[:2000]
    if st == MessageType.CONFIRMED:
        res.status = "confirmed"
    elif st in (MessageType.POST_FAIL, MessageType.EXEC_ERR, MessageType.POST_ERR):
        res.status = "refuted"
        parsed = _parse_call(m.message or "")
        if parsed is not None:
            res.model = json.dumps(_jsonable(_bind(fn, *parsed)))
        else:
            res.extra["unparsed_model"] = True
    elif st == MessageType.PRE_UNSAT:
        res.status = "vacuous"
    elif st == MessageType.CANNOT_CONFIRM:
        res.status = "unknown"
    else:
        res.status = "error"
    return res


def _jsonable(x: Any) -> Any:
    if isinstance(x, (bytes, bytearray)):
        return {"__bytes__": bytes(x).hex()}
    if isinstance(x, tuple):
        return {"__tuple__": [_jsonable(i) for i in x]}
    if isinstance(x, list):
        return [_jsonable(i) for i in x]
    if isinstance(x, dict):
        return {str(k): _jsonable(v) for k, v in x.items()}
    if isinstance(x, (int, str, bool, float)) or x is None:
        return x
    return repr(x)


def _unjson(x: Any) -> Any:
    if isinstance(x, dict):
        if "__bytes__" in x:
            return bytes.fromhex(x["__bytes__"])
        if "__tuple__" in x:
            return tuple(_unjson(i) for i in x["__tuple__"])
        return {k: _unjson(v) for k, v in x.items()}
    if isinstance(x, list):
        return [_unjson(i) for i in x]
    return x


def _run_plain(mod, ob: Ob, seed: int) -> Res:
    """e2 / anchor obligations: the builder returns a dict with status etc."""
    res = Res(ob.name, ob.clause, ob.kind, ob.role, ob.expect)
    out = getattr(mod, ob.builder)(**ob.params)
    res.status = out.get("status", "error")
    res.detail = str(out.get("detail", ""))[:2000]
    res.queries = int(out.get("queries", 0))
    res.paths = int(out.get("paths", 0))
    res.solver_s = float(out.get("solver_s", 0.0))
    res.functions = list(out.get("functions", []))
    if out.get("model") is not None:
        res.model = json.dumps(_jsonable(out["model"]))
    res.extra = {k: v for k, v in out.items()
                 if k not in ("status", "detail", "queries", "paths", "solver_s", "functions", "model")}
    return res


def _replay(mod, ob: Ob, model: Dict[str, Any]) -> Dict[str, Any]:
    """Run the property's replay against the real code (no tracer, real libraries)."""
    rp = getattr(mod, "replay", None)
    if rp is None:
        return {"reproduced": None, "detail": "no replay function"}
    try:
        out = rp(ob, model)
    except Exception as e:  # noqa
        return {"reproduced": None, "detail": "replay crashed: %s: %s\n%s" % (type(e).__name__, e, traceback.format_exc()[-1500:])}
    return out


def _worker(modname: str, ob: Ob, seed: int, scratch: str, conn) -> None:
    t0 = time.time()
    try:
        os.chdir(scratch)
        sys.setrecursionlimit(10000)
        mod = importlib.import_module(modname)
        if ob.kind == "e1":
            res = _run_e1(mod, ob, seed)
        else:
            res = _run_plain(mod, ob, seed)
        if res.status == "refuted" and res.model is not None and ob.role != "twin":
            res.replay = _replay(mod, ob, _unjson(json.loads(res.model)))
    except BaseException as e:  # noqa
        res = Res(ob.name, ob.clause, ob.kind, ob.role, ob.expect, status="error",
                  detail="%s: %s\n%s" % (type(e).__name__, e, traceback.format_exc()[-6000:]))
    res.wall_s = time.time() - t0
    try:
        conn.send(asdict(res))
    finally:
        conn.close()


# ------------------------------------------------------------------------------------------------
# parent side


def load_known_findings() -> List[Dict[str, Any]]:
    p = os.path.join(VERIF, "known_findings.json")
    if not os.path.exists(p):
        return []
    with open(p) as f:
        return json.load(f)["findings"]


def known_keys(prop: str) -> List[str]:
    return [k["key"] for k in load_known_findings() if k["property"] == prop and k["status"] == "known"]


def run_obligations(modname: str, obs: List[Ob], seed: int, jobs: int, scratch: str, verbose: bool = True) -> List[Dict[str, Any]]:
    ctx = mp.get_context("fork")
    pending = list(obs)
    running: List[Tuple[Any, Any, Ob, float]] = []
    results: List[Dict[str, Any]] = []
    while pending or running:
        while pending and len(running) < jobs:
            ob = pending.pop(0)
            pr, pw = ctx.Pipe(duplex=False)
            p = ctx.Process(target=_worker, args=(modname, ob, seed, scratch, pw))
            p.start()
            pw.close()
            running.append((p, pr, ob, time.time()))
        still = []
        for (p, pr, ob, t0) in running:
            hard = ob.timeout * 1.5 + 90
            if pr.poll(0):
                try:
                    r = pr.recv()
                except EOFError:
                    r = asdict(Res(ob.name, ob.clause, ob.kind, ob.role, ob.expect, status="error",
                                   detail="worker died without a result (exit %s)" % p.exitcode))
                p.join(5)
                results.append(r)
                if verbose:
                    _progress(r)
            elif not p.is_alive():
                p.join()
                r = asdict(Res(ob.name, ob.clause, ob.kind, ob.role, ob.expect, status="error",
                               detail="worker exited %s without a result" % p.exitcode, wall_s=time.time() - t0))
                results.append(r)
                if verbose:
                    _progress(r)
            elif time.time() - t0 > hard:
                p.kill()
                p.join()
                r = asdict(Res(ob.name, ob.clause, ob.kind, ob.role, ob.expect, status="unknown",
                               detail="hard timeout after %.0f s" % hard, wall_s=time.time() - t0))
                results.append(r)
                if verbose:
                    _progress(r)
            else:
                still.append((p, pr, ob, t0))
        running = still
        if running:
            time.sleep(0.05)
    order = {ob.name: i for i, ob in enumerate(obs)}
    results.sort(key=lambda r: order.get(r["name"], 0))
    return results


def _progress(r: Dict[str, Any]) -> None:
    print("  [%-9s] %-58s paths=%-5d %.1fs %s" % (
        r["status"], r["name"][:58], r["paths"], r["wall_s"],
        ("" if r["status"] in ("confirmed",) or r["role"] == "twin" else (r["detail"] or "").replace("\n", " ")[:150])),
        flush=True)


def main(argv: List[str]) -> int:
    import argparse
    ap = argparse.ArgumentParser()
    ap.add_argument("prop")
    ap.add_argument("--tier", default=os.environ.get("VERIF_TIER", "quick"), choices=["quick", "thorough"])
    ap.add_argument("--replay", default=None)
    ap.add_argument("--jobs", type=int, default=int(os.environ.get("VERIF_JOBS", "16")))
    ap.add_argument("--only", default=None, help="regex on obligation names (debugging; evidence is not written)")
    ap.add_argument("--list", action="store_true")
    a = ap.parse_args(argv)
    prop = a.prop.upper()
    seed = int(os.environ.get("VERIF_SEED", "0") or 0)
    t_start = time.time()
    scratch = tempfile.mkdtemp(prefix="verif-%s-" % prop)
    sys.path.insert(0, VERIF)
    os.environ["PYTHONDONTWRITEBYTECODE"] = "1"
    sys.dont_write_bytecode = True
    os.environ["VERIF_SCRATCH"] = scratch
    rc = EXIT_HARNESS
    try:
        os.chdir(scratch)
        if _REPO != "/repo":
            sys.path.insert(0, _REPO)
        modname = _harness_module(prop)
        # pre-import heavy things once in the parent; children are forked from here
        import crosshair.core_and_libs  # noqa
        import z3  # noqa
        from symlib.prelude import silence_loggers, import_repo_networking
        silence_loggers()
        # import the whole repository once in the parent (scratch cwd): importing skepticoin.blockstore creates
        # ./chain.db, and 16 children doing that concurrently in one directory race on CREATE TABLE.
        import_repo_networking()
        mod = importlib.import_module(modname)
        if a.replay:
            return _replay_file(mod, prop, a.replay)
        obs: List[Ob] = mod.obligations(a.tier, known_keys(prop))
        if a.list:
            for ob in obs:
                print(ob.name, ob.kind, ob.role, ob.expect, ob.timeout, ob.params)
            return 0
        if a.only:
            obs = [o for o in obs if re.search(a.only, o.name)]
        print("== %s tier=%s obligations=%d jobs=%d (repo tree: %s)" % (prop, a.tier, len(obs), a.jobs, _repo_rev()), flush=True)
        results = run_obligations(modname, obs, seed, a.jobs, scratch)
        rc = _conclude(mod, prop, a.tier, seed, obs, results, time.time() - t_start, write=(a.only is None))
    except SystemExit:
        raise
    except BaseException as e:  # noqa
        print("HARNESS-ERROR property=%s %s: %s" % (prop, type(e).__name__, e))
        traceback.print_exc()
        rc = EXIT_HARNESS
    finally:
        os.chdir("/")
        shutil.rmtree(scratch, ignore_errors=True)
    return rc


def _repo_rev() -> str:
    import subprocess
    try:
        h = subprocess.run(["git", "-C", _REPO, "rev-parse", "--short", "HEAD"], capture_output=True, text=True).stdout.strip()
        d = subprocess.run(["git", "-C", _REPO, "status", "--porcelain", "--untracked-files=no"], capture_output=True, text=True).stdout.strip()
        return h + ("+dirty" if d else "")
    except Exception:
        return "?"


def _harness_module(prop: str) -> str:
    hd = os.path.join(VERIF, "harness")
    for f in sorted(os.listdir(hd)):
        if f.lower().startswith(prop.lower() + "_") and f.endswith(".py"):
            return "harness." + f[:-3]
    raise SystemExit("no harness for %s" % prop)


def _replay_file(mod, prop: str, path: str) -> int:
    with open(path) as f:
        rec = json.load(f)
    ob = Ob(**rec["obligation"])
    out = _replay(mod, ob, _unjson(rec["model"]))
    print(json.dumps(out, indent=1, default=str))
    if out.get("reproduced"):
        print("VIOLATION property=%s replay=%s" % (prop, path))
        return EXIT_VIOLATION
    return EXIT_OK


def _conclude(mod, prop: str, tier: str, seed: int, obs: List[Ob], results: List[Dict[str, Any]],
              wall: float, write: bool = True) -> int:
    by_name = {o.name: o for o in obs}
    kf = {k["key"]: k for k in load_known_findings() if k["property"] == prop}
    violations: List[Tuple[Dict[str, Any], str]] = []
    known_lines: List[str] = []
    harness_errors: List[str] = []
    inconclusive: List[str] = []
    discharged = 0
    twins_refuted = 0
    os.makedirs(os.path.join(VERIF, "replays"), exist_ok=True)
    n_rep = 0
    for r in results:
        ob = by_name[r["name"]]
        st = r["status"]
        if ob.role == "twin":
            if st == "refuted":
                twins_refuted += 1
            elif st in ("confirmed", "vacuous"):
                harness_errors.append("vacuity twin %s was %s: the harness never reaches its assertion" % (ob.name, st))
            elif st == "unknown":
                # the twin neither reached nor refuted reachability within its budget: reported, not fatal (a timeout is
                # never a verdict, in either direction)
                inconclusive.append(ob.name)
            else:
                harness_errors.append("vacuity twin %s failed (%s): %s" % (ob.name, st, r["detail"][:200]))
            continue
        if st == "error":
            harness_errors.append("%s: %s" % (ob.name, r["detail"][-2500:]))
            continue
        if st == "vacuous":
            harness_errors.append("%s: precondition unsatisfiable" % ob.name)
            continue
        if st == "unknown":
            inconclusive.append(ob.name)
            continue
        if st == "confirmed":
            if ob.role == "finding":
                # the listed finding no longer fails: nothing to print (a fixed entry suppresses nothing)
                discharged += 1
            else:
                discharged += 1
            continue
        # refuted
        rp = r.get("replay") or {}
        if r.get("model") is None:
            harness_errors.append("%s: counterexample could not be parsed: %s" % (ob.name, r["detail"][:300]))
            continue
        if rp.get("reproduced") is True:
            key = rp.get("key") or ob.finding_key or "unclassified"
            n_rep += 1
            path = os.path.join(VERIF, "replays", "%s-%d.json" % (prop, n_rep))
            with open(path, "w") as f:
                json.dump({"property": prop, "obligation": asdict(ob), "model": json.loads(r["model"]),
                           "key": key, "replay": rp}, f, indent=1, default=str)
            if n_rep > 5 and not (key in kf and kf[key]["status"] == "known"):
                os.remove(path)   # at most five replay files / VIOLATION lines per run
                violations.append((r, None))
                continue
            if key in kf and kf[key]["status"] == "known":
                line = "KNOWN-FINDING: property=%s %s [%s] replay=%s" % (prop, kf[key]["what"], key, path)
                if line.split(" replay=")[0] not in [k.split(" replay=")[0] for k in known_lines]:
                    known_lines.append(line)
            else:
                violations.append((r, path))
        elif rp.get("reproduced") is False:
            harness_errors.append("%s: model did not reproduce against the real code (stub/encoding wrong?): model=%s detail=%s"
                                  % (ob.name, r["model"][:300], str(rp.get("detail"))[:300]))
        else:
            harness_errors.append("%s: replay unavailable: %s" % (ob.name, str(rp.get("detail"))[:400]))

    n_main = len([o for o in obs if o.role != "twin"])
    funcs = sorted({f for r in results for f in r.get("functions", [])})
    samples = []
    for r in results[:]:
        if len(samples) >= 8:
            break
        samples.append({"obligation": r["name"], "clause": r["clause"], "status": r["status"], "paths": r["paths"],
                        "wall_s": round(r["wall_s"], 2), "model": r.get("model"), "detail": r["detail"][:200]})
    meta = getattr(mod, "META", {})
    evidence = {
        "property_id": prop,
        "tier": tier,
        "seed": seed,
        "level": "other",
        "coverage": {
            "explanation": meta.get("explanation", "") + " Verdict per obligation comes from the solver (CrossHair/z3 path exhaustion "
            "or an unsat answer); every counterexample is replayed against the real code before it is reported.",
            "technique": meta.get("technique", "bounded symbolic execution (CrossHair + z3) of the repository's functions"),
            "bounds": meta.get("bounds", ""),
            "outside_bounds": meta.get("outside", ""),
            "stubs": meta.get("stubs", []),
            "functions_executed": funcs,
            "obligations": n_main,
            "discharged": discharged,
            "inconclusive": inconclusive,
            "vacuity_twins": len([o for o in obs if o.role == "twin"]),
            "vacuity_twins_refuted": twins_refuted,
            "paths_explored": sum(r["paths"] for r in results),
            "queries": sum(r["queries"] for r in results) + sum(r["paths"] for r in results),
            "solver_time_s": round(sum(r["solver_s"] for r in results), 2),
            "evaluations": max(1, sum(max(1, r["paths"], r["queries"]) for r in results)),
            "distinct_nontrivial": max(discharged, 0),
            "rule": "one evaluation = one explored path condition or one solver query; distinct_nontrivial = number of "
                    "obligations (distinct case-split instances of distinct harnesses) whose every path was discharged",
            "samples": samples,
            "per_obligation": [{"name": r["name"], "clause": r["clause"], "kind": r["kind"], "role": r["role"], "status": r["status"],
                                "paths": r["paths"], "queries": r["queries"], "wall_s": round(r["wall_s"], 2)} for r in results],
            "known_findings_reported": known_lines,
            "harness_errors": harness_errors,
            "repo_rev": _repo_rev(),
        },
        "assumptions": meta.get("assumptions", []),
        "wall_s": round(wall, 2),
        "violations": len(violations),
    }
    if write and _REPO != "/repo":
        # a run against a scratch copy of the repository (seed matrix) is not evidence about /repo
        edir = os.environ.get("VERIF_SCRATCH", "/tmp")
        with open(os.path.join(edir, prop + ".evidence.json"), "w") as f:
            json.dump(evidence, f, indent=1, default=str)
    elif write:
        os.makedirs(os.path.join(VERIF, "evidence"), exist_ok=True)
        tmp = os.path.join(VERIF, "evidence", prop + ".json.tmp")
        with open(tmp, "w") as f:
            json.dump(evidence, f, indent=1, default=str)
        os.replace(tmp, os.path.join(VERIF, "evidence", prop + ".json"))
    for line in known_lines:
        print(line)
    for n in inconclusive:
        print("INCONCLUSIVE property=%s obligation=%s" % (prop, n))
    print("== %s: obligations=%d discharged=%d inconclusive=%d twins=%d/%d violations=%d known=%d harness_errors=%d wall=%.1fs" % (
        prop, n_main, discharged, len(inconclusive), twins_refuted, len([o for o in obs if o.role == "twin"]),
        len(violations), len(known_lines), len(harness_errors), wall))
    if violations:
        for (r, path) in violations:
            if path is None:
                continue
            print("  violated obligation %s: model=%s :: %s" % (r["name"], (r["model"] or "")[:300], str((r.get("replay") or {}).get("detail"))[:300]))
            print("VIOLATION property=%s replay=%s" % (prop, path))
        return EXIT_VIOLATION
    if harness_errors:
        for h in harness_errors:
            print("HARNESS-ERROR property=%s %s" % (prop, h))
        return EXIT_HARNESS
    return EXIT_OK


if __name__ == "__main__":
    sys.exit(main(sys.argv[1:]))

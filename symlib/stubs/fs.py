"""In-memory file system standing in for open / os.replace / os.remove / os.path.isfile in
skepticoin.wallet and skepticoin.networking.disk_interface.

Semantics: open(name, 'w') truncates at open; written text reaches the "disk" either immediately
(eager=True: unbuffered / buffer smaller than the chunks) or only when the file is closed
(eager=False: Python's default buffering for small files) - both happen in reality, so harnesses
treat `eager` as a symbolic choice; os.replace is atomic. A crash (process death) is an exception
injected before file operation number `crash_at` (operations: open-for-write, every write, close,
replace, remove); text still in the buffer is lost.
"""
from __future__ import annotations

from typing import Dict, List


class Crash(Exception):
    pass


class MemFS:
    def __init__(self, files: Dict[str, str], crash_at: int, eager: bool = True):
        self.files = dict(files)
        self.crash_at = crash_at
        self.eager = eager
        self.ops = 0
        self.trace: List[str] = []

    def _op(self, name: str) -> None:
        if self.ops == self.crash_at:
            raise Crash(name)
        self.ops += 1
        self.trace.append(name)

    def open(self, name: str, mode: str = "r"):
        fs = self

        class F:
            def __init__(s):
                s.buf = ""
                s.closed = False
                s.w = "w" in mode
                if s.w:
                    fs._op("open-w " + name)
                    fs.files[name] = ""
                elif name not in fs.files:
                    raise FileNotFoundError(name)

            def read(s):
                return fs.files[name]

            def write(s, text):
                fs._op("write " + name)
                if fs.eager:
                    fs.files[name] = fs.files[name] + text
                else:
                    s.buf = s.buf + text
                return len(text)

            def flush(s):
                if s.w and s.buf:
                    fs._op("flush " + name)
                    if name in fs.files:
                        fs.files[name] = fs.files[name] + s.buf
                    s.buf = ""

            def close(s):
                if s.w and not s.closed:
                    fs._op("close " + name)
                    if s.buf:
                        # the file object still refers to the same inode after a rename: write to wherever it lives now
                        target = name if name in fs.files else fs.renamed.get(name, name)
                        fs.files[target] = fs.files.get(target, "") + s.buf
                        s.buf = ""
                    s.closed = True

            def __enter__(s):
                return s

            def __exit__(s, *a):
                if a and a[0] is not None and issubclass(a[0], Crash):
                    return False      # the process is dead: nothing is flushed
                s.close()
                return False
        return F()

    renamed: Dict[str, str] = {}

    # os / os.path surface
    def replace(self, a: str, b: str) -> None:
        self._op("replace")
        self.files[b] = self.files.pop(a)
        self.renamed = dict(self.renamed)
        self.renamed[a] = b

    def remove(self, a: str) -> None:
        self._op("remove")
        del self.files[a]

    def isfile(self, a: str) -> bool:
        return a in self.files

    # low-level descriptors: os.open(name, flags, mode) / os.fdopen(fd, 'w') - no implicit truncation
    O_RDONLY, O_WRONLY, O_RDWR, O_CREAT, O_EXCL, O_TRUNC, O_APPEND = 0, 1, 2, 64, 128, 512, 1024

    def os_open(self, name: str, flags: int, mode: int = 0o777) -> int:
        self._op("os.open " + name)
        if name not in self.files:
            if not (flags & self.O_CREAT):
                raise FileNotFoundError(name)
            self.files[name] = ""
        elif flags & self.O_EXCL:
            raise FileExistsError(name)
        if flags & self.O_TRUNC:
            self.files[name] = ""
        self.fds = dict(getattr(self, "fds", {}))
        fd = 3 + len(self.fds)
        self.fds[fd] = (name, bool(flags & self.O_APPEND))
        return fd

    def fdopen(self, fd: int, mode: str = "r", *a, **k):
        fs = self
        name, append = self.fds[fd]

        class FD:
            def __init__(s):
                s.text = ""
                s.closed = False

            def write(s, t):
                fs._op("write " + name)
                s.text = s.text + t
                if fs.eager:
                    s._commit()
                return len(t)

            def _commit(s):
                target = name if name in fs.files else fs.renamed.get(name, name)
                old = fs.files.get(target, "")
                # writing from offset 0 over whatever is there: the tail of a longer old content survives
                fs.files[target] = (old + s.text) if append else (s.text + old[len(s.text):])

            def flush(s):
                s._commit()

            def close(s):
                if not s.closed:
                    fs._op("close " + name)
                    s._commit()
                    s.closed = True

            def __enter__(s):
                return s

            def __exit__(s, *a):
                if a and a[0] is not None and issubclass(a[0], Crash):
                    return False
                s.close()
                return False
        return FD()

    def shims(self):
        fs = self

        class FakePath:
            isfile = staticmethod(fs.isfile)
            exists = staticmethod(fs.isfile)

        class FakeOs:
            replace = staticmethod(fs.replace)
            rename = staticmethod(fs.replace)
            remove = staticmethod(fs.remove)
            unlink = staticmethod(fs.remove)
            open = staticmethod(fs.os_open)
            fdopen = staticmethod(fs.fdopen)
            fsync = staticmethod(lambda fd: None)
            O_RDONLY, O_WRONLY, O_RDWR, O_CREAT, O_EXCL, O_TRUNC, O_APPEND = 0, 1, 2, 64, 128, 512, 1024
            path = FakePath
        return fs.open, FakeOs


class patched:
    """with patched(module, fs): ... installs open/os shims in a repository module and restores them."""

    def __init__(self, module, fs: MemFS):
        self.module, self.fs = module, fs

    def __enter__(self):
        m = self.module
        self.saved = (getattr(m, "open", None), m.os)
        m.open, m.os = self.fs.shims()
        return self.fs

    def __exit__(self, *a):
        m = self.module
        m.os = self.saved[1]
        if self.saved[0] is None:
            del m.open
        else:
            m.open = self.saved[0]
        return False

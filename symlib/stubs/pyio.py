"""Pure-Python stand-in for io.BytesIO (CrossHair realises every byte handed to the C BytesIO).

Contract: write() appends at the current position (overwrite in the middle is not used by the
repository and raises), read(n) first branches on `n >= remaining` so that all over-long reads of
one call fold into one path, tell/seek/getvalue as io.BytesIO. Differentially validated against
io.BytesIO in symlib.stubs.validate.
"""
from __future__ import annotations


class PyBytesIO:
    def __init__(self, initial: bytes = b""):
        self._buf = initial
        self._pos = 0

    def read(self, n: int = -1) -> bytes:
        remaining = len(self._buf) - self._pos
        if remaining <= 0:
            return b""
        if n is None or n < 0 or n >= remaining:
            r = self._buf[self._pos:]
            self._pos = len(self._buf)
            return r
        r = self._buf[self._pos:self._pos + n]
        self._pos += n
        return r

    def write(self, b: bytes) -> int:
        if self._pos != len(self._buf):
            raise NotImplementedError("PyBytesIO: only appending writes are modelled")
        self._buf = self._buf + b
        self._pos = len(self._buf)
        return len(b)

    def tell(self) -> int:
        return self._pos

    def seek(self, pos: int, whence: int = 0) -> int:
        if whence == 0:
            newpos = pos
        elif whence == 1:
            newpos = self._pos + pos
        else:
            newpos = len(self._buf) + pos
        if newpos < 0:
            raise ValueError("negative seek value")
        self._pos = newpos
        return newpos

    def getvalue(self) -> bytes:
        return self._buf

    def close(self) -> None:
        pass


def install(*modules) -> None:
    for m in modules:
        if hasattr(m, "BytesIO"):
            m.BytesIO = PyBytesIO

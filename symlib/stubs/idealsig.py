"""Ideal signature scheme standing in for the `ecdsa` package as imported into
skepticoin.signing and skepticoin.wallet (EUF-CMA idealisation).

verify(sig, msg) under public key pk succeeds iff (pk, msg, sig) was produced by sign(); anything
else raises BadSignatureError. The repository's own SECP256k1PublicKey.validate /
SECP256k1Signature.validate / sign_transaction run unmodified on top of this object.
Keys: public key = 64 bytes, private key = 32 bytes with pub = PUB(priv) from a fixed table.
"""
from __future__ import annotations

from typing import List, Tuple


_SIG_COUNTER = 0


class BadSignatureError(Exception):
    pass


class _Keys:
    BadSignatureError = BadSignatureError


class Registry:
    def __init__(self) -> None:
        self.signed: List[Tuple[bytes, bytes, bytes]] = []  # (pub, msg, sig)
        self.counter = 0
        self.priv_to_pub: List[Tuple[bytes, bytes]] = []
        self.verify_log: List[Tuple[bytes, bytes, bytes]] = []

    def new_sig_token(self) -> bytes:
        # process-wide counter: a signature value is never handed out twice, also not across the paths of one
        # symbolic run (a validator that keeps state between calls must not see an old signature value re-appear
        # for a different message merely because the harness restarted its numbering)
        global _SIG_COUNTER
        _SIG_COUNTER += 1
        self.counter = _SIG_COUNTER
        return bytes([0x51]) + _SIG_COUNTER.to_bytes(4, "big") + bytes([0x6D]) * 59

    def sign(self, pub: bytes, msg: bytes) -> bytes:
        sig = self.new_sig_token()
        self.signed.append((pub, msg, sig))
        return sig

    def verify(self, pub: bytes, sig: bytes, msg: bytes) -> bool:
        self.verify_log.append((pub, sig, msg))
        for (p, m, s) in self.signed:
            if s == sig and p == pub and len(m) == len(msg) and m == msg:
                return True
        return False


def make_key(label: int) -> Tuple[bytes, bytes]:
    """(public 64 bytes, private 32 bytes) for a small integer label."""
    return bytes([0xC0 + label]) * 64, bytes([0xD0 + label]) * 32


class IdealEcdsa:
    """Instance is installed as the module attribute `ecdsa`."""
    SECP256k1 = "SECP256k1"
    keys = _Keys
    BadSignatureError = BadSignatureError

    def __init__(self) -> None:
        self.registry = Registry()
        outer = self

        class VerifyingKey:
            def __init__(self, pub: bytes):
                self.pub = pub

            @classmethod
            def from_string(cls, pub: bytes, curve=None):
                return cls(pub)

            def to_string(self) -> bytes:
                return self.pub

            def verify(self, signature: bytes, message: bytes) -> bool:
                if outer.registry.verify(self.pub, signature, message):
                    return True
                raise BadSignatureError("ideal: not signed")

        class SigningKey:
            _generated = 0

            def __init__(self, priv: bytes):
                self.priv = priv
                pub = None
                for (pr, pu) in outer.registry.priv_to_pub:
                    if pr == priv:
                        pub = pu
                if pub is None:
                    pub = bytes([(priv[0] - 0x10) & 0xFF]) * 64
                self.verifying_key = VerifyingKey(pub)

            @classmethod
            def from_string(cls, priv: bytes, curve=None):
                return cls(priv)

            @classmethod
            def generate(cls, curve=None):
                SigningKey._generated += 1
                pub, priv = make_key(0x20 + SigningKey._generated)
                outer.registry.priv_to_pub.append((priv, pub))
                return cls(priv)

            def to_string(self) -> bytes:
                return self.priv

            def sign(self, message: bytes) -> bytes:
                return outer.registry.sign(self.verifying_key.pub, message)

        self.VerifyingKey = VerifyingKey
        self.SigningKey = SigningKey


def install() -> IdealEcdsa:
    import sys
    import skepticoin.signing as sg
    e = IdealEcdsa()
    sg.ecdsa = e
    w = sys.modules.get("skepticoin.wallet")
    if w is not None:
        w.ecdsa = e
    return e

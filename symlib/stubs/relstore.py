"""Relational stand-in for the `sqlite3` module as used by skepticoin/blockstore.py.

Tables are Python lists of rows. The schema - column names, primary keys, foreign keys - is parsed
from the repository's own CREATE TABLE statements at run time, so a schema change in the
repository changes the model. Implemented statements (exactly those the block store issues):

  PRAGMA ...                      ignored (foreign_keys = ON is assumed, as the store sets it)
  CREATE TABLE / CREATE INDEX     schema parsed / ignored
  BEGIN TRANSACTION / COMMIT      with SQLite's "cannot start a transaction within a transaction";
                                  a failed statement leaves the transaction open (as SQLite does)
  INSERT OR IGNORE INTO t VALUES  skipped when the primary key or a UNIQUE constraint matches an
                                  existing row; a non-NULL foreign key without parent row raises
                                  IntegrityError (OR IGNORE does not cover foreign keys)
  INSERT OR REPLACE / INSERT INTO  REPLACE deletes the conflicting row and appends the new one (fresh rowid: last in a scan
                                  without ORDER BY), foreign keys checked at statement end; plain INSERT raises on conflict
  CHECK (col op int)              parsed from the DDL; a violating row is skipped under OR IGNORE, raises otherwise
  SELECT cols FROM t [ORDER BY c, ...] rows in insertion (rowid) order; ORDER BY = stable sort, composed with a
                                  caller-supplied permutation inside groups of equal keys (SQLite
                                  leaves the order of ties unspecified)

Differentially validated against the real sqlite3 in symlib/stubs/validate_relstore.py and on every replay
(replays use real SQLite).
"""
from __future__ import annotations

import re
from typing import Any, Callable, Dict, Iterable, List, Optional, Sequence, Tuple


class IntegrityError(Exception):
    pass


class OperationalError(Exception):
    pass


class Table:
    def __init__(self, name: str, cols: List[str], pk: List[str], uniques: List[List[str]], fks: List[Tuple[List[str], str, List[str]]],
                 checks: Optional[List[Tuple[str, str, int]]] = None):
        self.name, self.cols, self.pk, self.uniques, self.fks = name, cols, pk, uniques, fks
        self.checks: List[Tuple[str, str, int]] = list(checks or [])      # (column, operator, integer literal)
        self.rows: List[Tuple[Any, ...]] = []

    def col(self, c: str) -> int:
        return self.cols.index(c)


_SCHEMA_CACHE: Dict[str, Any] = {}
_STMT_CACHE: Dict[str, Tuple[str, Any]] = {}


def parse_create_table(sql: str) -> Table:
    # parsing is concrete text processing: done once per distinct statement text (the regex engine is slow under the tracer)
    if sql in _SCHEMA_CACHE:
        n, c, p, u, f, k = _SCHEMA_CACHE[sql]
        return Table(n, list(c), list(p), [list(x) for x in u], [(list(a), b, list(cc)) for (a, b, cc) in f], list(k))
    t = _parse_create_table(sql)
    _SCHEMA_CACHE[sql] = (t.name, list(t.cols), list(t.pk), [list(x) for x in t.uniques], [(list(a), b, list(c)) for (a, b, c) in t.fks],
                          list(t.checks))
    return t


def _parse_create_table(sql: str) -> Table:
    m = re.match(r"\s*CREATE\s+TABLE\s+(\w+)\s*\((.*)\)\s*$", sql, re.S | re.I)
    if not m:
        raise OperationalError("cannot parse: " + sql[:60])
    name, body = m.group(1), m.group(2)
    parts, depth, cur = [], 0, ""
    for ch in body:
        if ch == "(":
            depth += 1
        if ch == ")":
            depth -= 1
        if ch == "," and depth == 0:
            parts.append(cur.strip())
            cur = ""
        else:
            cur += ch
    if cur.strip():
        parts.append(cur.strip())
    cols: List[str] = []
    pk: List[str] = []
    uniques: List[List[str]] = []
    fks: List[Tuple[List[str], str, List[str]]] = []
    checks: List[Tuple[str, str, int]] = []
    for p in parts:
        up = p.upper()
        for cm in re.finditer(r"CHECK\s*\((.*?)\)", p, re.I | re.S):
            mm = re.match(r"\s*(\w+)\s*(>=|<=|<>|!=|==|=|>|<)\s*(-?\d+)\s*$", cm.group(1))
            if not mm:
                raise OperationalError("unsupported CHECK constraint: " + cm.group(1)[:60])
            checks.append((mm.group(1), mm.group(2), int(mm.group(3))))
        if up.startswith("CHECK"):
            continue
        if up.startswith("PRIMARY KEY"):
            pk = [c.strip() for c in re.search(r"\((.*?)\)", p).group(1).split(",")]
        elif up.startswith("UNIQUE"):
            uniques.append([c.strip() for c in re.search(r"\((.*?)\)", p).group(1).split(",")])
        elif up.startswith("FOREIGN KEY"):
            mm = re.match(r"FOREIGN\s+KEY\s*\((.*?)\)\s*REFERENCES\s+(\w+)\s*\((.*?)\)", p, re.S | re.I)
            fks.append(([c.strip() for c in mm.group(1).split(",")], mm.group(2), [c.strip() for c in mm.group(3).split(",")]))
        else:
            toks = p.split()
            c = toks[0]
            cols.append(c)
            if "PRIMARY KEY" in up:
                pk = [c]
            if re.search(r"\bUNIQUE\b", up):
                uniques.append([c])
            mm = re.search(r"REFERENCES\s+(\w+)\s*\((.*?)\)", p, re.I)
            if mm:
                fks.append(([c], mm.group(1), [x.strip() for x in mm.group(2).split(",")]))
    return Table(name, cols, pk, uniques, fks, checks)


def _check_holds(v: Any, op: str, lit: int) -> bool:
    if v is None:
        return True         # a CHECK whose expression is NULL is satisfied
    if op == ">":
        return v > lit
    if op == ">=":
        return v >= lit
    if op == "<":
        return v < lit
    if op == "<=":
        return v <= lit
    if op in ("=", "=="):
        return v == lit
    return v != lit


class Database:
    def __init__(self) -> None:
        self.tables: Dict[str, Table] = {}
        self.in_tx = False
        self.tie_order: Optional[Callable[[List[Tuple[Any, ...]]], List[Tuple[Any, ...]]]] = None
        self.log: List[str] = []

    # -- statements ------------------------------------------------------------------------------
    def execute(self, sql: str, params: Sequence[Any] = ()) -> List[Tuple[Any, ...]]:
        kind, info = _classify_statement(sql)
        if kind == "noop":
            return []
        if kind == "unique-index":
            self.tables[info[0]].uniques.append(list(info[1]))
            return []
        if kind == "create":
            t = parse_create_table(sql)
            if t.name in self.tables:
                raise OperationalError("table %s already exists" % t.name)
            self.tables[t.name] = t
            return []
        if kind == "begin":
            if self.in_tx:
                raise OperationalError("cannot start a transaction within a transaction")
            self.in_tx = True
            return []
        if kind == "commit":
            if not self.in_tx:
                raise OperationalError("cannot commit - no transaction is active")
            self.in_tx = False
            return []
        if kind == "insert":
            t = self.tables[info]
            if len(params) != len(t.cols):
                raise OperationalError("table %s has %d columns but %d values were supplied" % (t.name, len(t.cols), len(params)))
            self.insert_or_ignore(t, tuple(params))
            return []
        if kind in ("insert-replace", "insert-abort"):
            t = self.tables[info]
            if len(params) != len(t.cols):
                raise OperationalError("table %s has %d columns but %d values were supplied" % (t.name, len(t.cols), len(params)))
            self.insert_or_ignore(t, tuple(params), mode=kind[7:])
            return []
        if kind == "select":
            cols, tname, order = info
            t = self.tables[tname]
            rows = list(t.rows)
            if order:
                ks = [t.col(o) for o in order]
                if self.tie_order is not None:
                    rows = self.tie_order(rows)
                rows = _stable_sort(rows, ks)
            idx = list(range(len(t.cols))) if cols == ["*"] else [t.col(c) for c in cols]
            return [tuple(r[i] for i in idx) for r in rows]
        raise OperationalError("unsupported statement: " + sql[:80])

    def insert_or_ignore(self, t: Table, row: Tuple[Any, ...], mode: str = "ignore") -> None:
        for v in row:
            if isinstance(v, int) and not isinstance(v, bool) and not (-(2 ** 63) <= v < 2 ** 63):
                raise OverflowError("Python int too large to convert to SQLite INTEGER")
        # CHECK constraints: OR IGNORE skips the row silently, otherwise the statement fails
        for (c, op, lit) in t.checks:
            if not _check_holds(row[t.col(c)], op, lit):
                if mode == "ignore":
                    return
                raise IntegrityError("CHECK constraint failed: " + t.name)
        # uniqueness: primary key and UNIQUE constraints (NULLs never conflict)
        for keycols in ([t.pk] if t.pk else []) + t.uniques:
            idx = [t.col(c) for c in keycols]
            mine = [row[i] for i in idx]
            if any(v is None for v in mine):
                continue
            for r in t.rows:
                same = True
                for i, v in zip(idx, mine):
                    if not (r[i] == v):
                        same = False
                        break
                if same:
                    if mode == "ignore":
                        return          # OR IGNORE
                    if mode == "abort":
                        raise IntegrityError("UNIQUE constraint failed: " + t.name)
                    # OR REPLACE: the conflicting row is deleted, the new row is appended (fresh rowid = last in scan order).
                    # Foreign keys are checked at the end of the statement: a child of the deleted row must find a parent again.
                    t.rows = [x for x in t.rows if x is not r]
                    self._replaced = True
        # foreign keys
        for (cs, pt, pcs) in t.fks:
            vals = [row[t.col(c)] for c in cs]
            if any(v is None for v in vals):
                continue
            parent = self.tables.get(pt)
            if parent is None:
                raise OperationalError("no such table: " + pt)
            pidx = [parent.col(c) for c in pcs]
            found = False
            for r in (parent.rows + ([row] if parent is t else [])):
                ok = True
                for i, v in zip(pidx, vals):
                    if not (r[i] == v):
                        ok = False
                        break
                if ok:
                    found = True
                    break
            if not found:
                raise IntegrityError("FOREIGN KEY constraint failed")
        t.rows.append(row)
        if getattr(self, "_replaced", False):
            self._replaced = False
            for child in self.tables.values():
                for (cs, pt, pcs) in child.fks:
                    if pt != t.name:
                        continue
                    pidx = [t.col(c) for c in pcs]
                    for cr in child.rows:
                        vals = [cr[child.col(c)] for c in cs]
                        if any(v is None for v in vals):
                            continue
                        if not any(all(pr[i] == v for i, v in zip(pidx, vals)) for pr in t.rows):
                            raise IntegrityError("FOREIGN KEY constraint failed")


def _classify_statement(sql: str) -> Tuple[str, Any]:
    if sql in _STMT_CACHE:
        return _STMT_CACHE[sql]
    s = " ".join(sql.split())
    up = s.upper()
    out: Tuple[str, Any]
    if up.startswith("CREATE UNIQUE INDEX"):
        m = re.match(r"CREATE UNIQUE INDEX (\w+) ON (\w+)\s*\((.*?)\)", s, re.I)
        out = ("unique-index", (m.group(2), [c.strip() for c in m.group(3).split(",")]))
    elif up.startswith("PRAGMA") or up.startswith("CREATE INDEX"):
        out = ("noop", None)
    elif up.startswith("CREATE TABLE"):
        out = ("create", None)
    elif up.startswith("BEGIN"):
        out = ("begin", None)
    elif up.startswith("COMMIT"):
        out = ("commit", None)
    elif up.startswith("INSERT OR IGNORE INTO"):
        m = re.match(r"INSERT OR IGNORE INTO (\w+) VALUES \(([?, ]*)\)", s, re.I)
        out = ("insert", m.group(1))
    elif up.startswith("INSERT OR REPLACE INTO") or up.startswith("REPLACE INTO"):
        m = re.match(r"(?:INSERT OR )?REPLACE INTO (\w+) VALUES \(([?, ]*)\)", s, re.I)
        out = ("insert-replace", m.group(1))
    elif up.startswith("INSERT INTO"):
        m = re.match(r"INSERT INTO (\w+) VALUES \(([?, ]*)\)", s, re.I)
        out = ("insert-abort", m.group(1))
    elif up.startswith("SELECT"):
        m = re.match(r"SELECT (.*?) FROM (\w+)(?: ORDER BY ([\w, ]+?)(?: ASC)?)?$", s, re.I)
        if not m:
            raise OperationalError("unsupported select: " + s[:80])
        out = ("select", ([c.strip() for c in m.group(1).split(",")], m.group(2),
                          [c.strip() for c in m.group(3).split(",")] if m.group(3) else None))
    else:
        raise OperationalError("unsupported statement: " + s[:80])
    _STMT_CACHE[sql] = out
    return out


def _sql_gt(a: Any, b: Any) -> bool:
    """SQLite ordering of the value kinds the store uses: NULL first, then integers, then blobs (bytewise)."""
    if a is None or b is None:
        return a is not None and b is None
    if isinstance(a, (bytes, bytearray)) != isinstance(b, (bytes, bytearray)):
        return isinstance(a, (bytes, bytearray))
    return a > b


def _stable_sort(rows: List[Tuple[Any, ...]], ks: List[int]) -> List[Tuple[Any, ...]]:
    def gt(x: Tuple[Any, ...], y: Tuple[Any, ...]) -> bool:
        for k in ks:
            if _sql_gt(x[k], y[k]):
                return True
            if _sql_gt(y[k], x[k]):
                return False
        return False
    out: List[Tuple[Any, ...]] = []
    for r in rows:
        i = len(out)
        while i > 0 and gt(out[i - 1], r):
            i -= 1
        out.insert(i, r)
    return out


class Cursor:
    def __init__(self, db: Database):
        self.db = db

    def execute(self, sql: str, params: Sequence[Any] = ()) -> "Cursor":
        self.result = self.db.execute(sql, params)
        return self

    def executemany(self, sql: str, seq: Iterable[Sequence[Any]]) -> "Cursor":
        for p in seq:
            self.db.execute(sql, p)
        return self

    def __iter__(self):
        return iter(self.result)

    def fetchall(self):
        return list(self.result)

    def close(self) -> None:
        pass


class Connection:
    def __init__(self, db: Database):
        self.db = db

    def execute(self, sql: str, params: Sequence[Any] = ()) -> Cursor:
        return Cursor(self.db).execute(sql, params)

    def cursor(self) -> Cursor:
        return Cursor(self.db)

    def close(self) -> None:
        pass


class FakeSqlite3:
    """Installed as the `sqlite3` name of skepticoin.blockstore. One in-memory database per path name."""
    IntegrityError = IntegrityError
    OperationalError = OperationalError

    def __init__(self) -> None:
        self.dbs: Dict[str, Database] = {}

    def connect(self, path: str, check_same_thread: bool = True) -> Connection:
        if path not in self.dbs or path == ":memory:":
            self.dbs[path] = Database()
        return Connection(self.dbs[path])


def install() -> FakeSqlite3:
    import skepticoin.blockstore as bs
    f = FakeSqlite3()
    bs.sqlite3 = f

    class FakeOsPath:
        @staticmethod
        def isfile(p: str) -> bool:
            return p in f.dbs

    class FakeOs:
        path = FakeOsPath
    bs.os = FakeOs
    return f


def uninstall() -> None:
    import os
    import sqlite3
    import skepticoin.blockstore as bs
    bs.sqlite3 = sqlite3
    bs.os = os

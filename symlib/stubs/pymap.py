"""Persistent association list standing in for immutables.Map (a C extension CrossHair realises).

Lookup is by `==` in insertion order, so a symbolic key forks on exactly the comparisons the
repository's own __eq__ methods make. API subset used by the repository: Map(), Map(dict),
set, delete, get, [], in, len, iteration, keys/values/items, mutate() -> mutation with
[]/[]=/del/in/get/finish and context-manager protocol. An optional read-log records every key
that was looked up (frame-by-read-set arguments).
"""
from __future__ import annotations

from typing import Any, Iterator, List, Optional, Tuple

_MISSING = object()


class PyMap:
    __slots__ = ("_items", "_log")

    def __class_getitem__(cls, item: Any) -> Any:
        return cls

    def __init__(self, init: Any = None, _items: Optional[Tuple[Tuple[Any, Any], ...]] = None, log: Optional[list] = None):
        if _items is not None:
            self._items = _items
        elif init is None:
            self._items = ()
        elif isinstance(init, PyMap):
            self._items = init._items
        elif isinstance(init, dict):
            self._items = tuple(init.items())
        else:
            self._items = tuple(init)
        self._log = log

    # -- lookups -------------------------------------------------------------------------------
    def _find(self, key: Any) -> int:
        if self._log is not None:
            self._log.append(key)
        for i, (k, _) in enumerate(self._items):
            if k == key:
                return i
        return -1

    def __getitem__(self, key: Any) -> Any:
        i = self._find(key)
        if i < 0:
            raise KeyError(key)
        return self._items[i][1]

    def __contains__(self, key: Any) -> bool:
        return self._find(key) >= 0

    def get(self, key: Any, default: Any = None) -> Any:
        i = self._find(key)
        return default if i < 0 else self._items[i][1]

    def __len__(self) -> int:
        return len(self._items)

    def __iter__(self) -> Iterator[Any]:
        return iter([k for k, _ in self._items])

    def keys(self) -> List[Any]:
        return [k for k, _ in self._items]

    def values(self) -> List[Any]:
        return [v for _, v in self._items]

    def items(self) -> List[Tuple[Any, Any]]:
        return list(self._items)

    # -- persistent updates --------------------------------------------------------------------
    def set(self, key: Any, value: Any) -> "PyMap":
        i = self._find(key)
        if i < 0:
            return PyMap(_items=self._items + ((key, value),), log=self._log)
        return PyMap(_items=self._items[:i] + ((key, value),) + self._items[i + 1:], log=self._log)

    def delete(self, key: Any) -> "PyMap":
        i = self._find(key)
        if i < 0:
            raise KeyError(key)
        return PyMap(_items=self._items[:i] + self._items[i + 1:], log=self._log)

    def mutate(self) -> "PyMapMutation":
        return PyMapMutation(self)

    def __eq__(self, other: Any) -> bool:
        if not isinstance(other, PyMap):
            return NotImplemented
        if len(self._items) != len(other._items):
            return False
        for k, v in self._items:
            j = -1
            for jj, (k2, _) in enumerate(other._items):
                if k2 == k:
                    j = jj
                    break
            if j < 0 or not (other._items[j][1] == v):
                return False
        return True

    def __repr__(self) -> str:
        return "PyMap(%d items)" % len(self._items)


class PyMapMutation:
    def __init__(self, m: PyMap):
        self._m = m
        self._finished = False

    def __enter__(self) -> "PyMapMutation":
        return self

    def __exit__(self, *exc: Any) -> bool:
        self._finished = True
        return False

    def __getitem__(self, key: Any) -> Any:
        return self._m[key]

    def __contains__(self, key: Any) -> bool:
        return key in self._m

    def get(self, key: Any, default: Any = None) -> Any:
        return self._m.get(key, default)

    def __setitem__(self, key: Any, value: Any) -> None:
        self._m = self._m.set(key, value)

    def set(self, key: Any, value: Any) -> None:
        self._m = self._m.set(key, value)

    def __delitem__(self, key: Any) -> None:
        self._m = self._m.delete(key)

    def __len__(self) -> int:
        return len(self._m)

    def finish(self) -> PyMap:
        return self._m


class _ImmutablesShim:
    """Object installed as the `immutables` name of a repository module."""
    Map = PyMap


def install(*modules) -> None:
    for m in modules:
        if hasattr(m, "immutables"):
            m.immutables = _ImmutablesShim

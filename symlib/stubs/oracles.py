"""Hash oracles: stand-ins for sha256d / blake2 / scrypt as imported into the repository modules.

All three flavours are *functions* (equal inputs -> equal outputs) and collision-free on the
queries of one run - the cryptographic assumption, stated in every claim that uses them.

TI  tagged identity  H(x) = tag || x          (injective by construction; output length varies)
LRO lazy table       H(x) = fresh 32-byte token per distinct input (inputs compared with ==, so a
                     symbolic input forks on "equal to an earlier query or not")
Every oracle keeps a query log [(input, output)].
"""
from __future__ import annotations

from typing import Callable, List, Optional, Tuple


class TI:
    def __init__(self, tag: bytes):
        self.tag = tag
        self.log: List[Tuple[bytes, bytes]] = []

    def __call__(self, *parts: bytes) -> bytes:
        # scrypt(password, salt) has two arguments: length-prefix is not needed for injectivity here
        # because the salt has a fixed width (8 bytes) and is appended last.
        x = b"".join(parts) if len(parts) != 1 else parts[0]
        out = self.tag + x
        self.log.append((x, out))
        return out


class LRO:
    def __init__(self, tag: int, real: Optional[Callable[..., bytes]] = None, descending: bool = False):
        """tag: first byte of the tokens handed out (so tokens of different oracles differ). descending: later inputs get
        smaller tokens (the byte order of ids relative to creation order is arbitrary; code must not depend on it)."""
        self.tag = tag
        self.descending = descending
        self.table: List[Tuple[Tuple[bytes, ...], bytes]] = []
        self.log: List[Tuple[Tuple[bytes, ...], bytes]] = []

    def preset(self, parts: Tuple[bytes, ...], out: bytes) -> None:
        self.table.append((parts, out))

    def __call__(self, *parts: bytes) -> bytes:
        for (p, out) in self.table:
            if len(p) == len(parts) and all(len(a) == len(b) for a, b in zip(p, parts)) and \
                    all(a == b for a, b in zip(p, parts)):
                self.log.append((parts, out))
                return out
        n = len(self.table) if not self.descending else 0xFFFF - len(self.table)
        out = bytes([self.tag, 0xAA]) + n.to_bytes(2, "big") + bytes([0x5A]) * 28
        self.table.append((parts, out))
        self.log.append((parts, out))
        return out


def install_hashes(sha256d=None, blake2=None, scrypt=None) -> None:
    """Assign the oracles to every repository module that imported the hash functions by name."""
    import skepticoin.hash as hmod
    import skepticoin.datatypes as dt
    import skepticoin.merkletree as mt
    import skepticoin.consensus as cs
    import skepticoin.pow as pw
    import sys
    if sha256d is not None:
        for m in (hmod, dt, mt, pw):
            m.sha256d = sha256d
        bs = sys.modules.get("skepticoin.blockstore")
        if bs is not None:
            bs.sha256d = sha256d
    if blake2 is not None:
        hmod.blake2 = blake2
        cs.blake2 = blake2
    if scrypt is not None:
        hmod.scrypt = scrypt
        cs.scrypt = scrypt

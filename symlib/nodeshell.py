"""Node shell: a real LocalPeer object with real NetworkManager / ChainManager, but a recording
selector, fake sockets, a deterministic nonce and clock, and a recording disk interface.

Only the operating-system boundary is replaced; LocalPeer.disconnect, handle_remote_peer_selector_event,
start_outgoing_connection, the managers and the ConnectedRemotePeer handlers are the repository's.
"""
from __future__ import annotations

import logging
from typing import Any, Dict, List, Optional, Tuple


class FakeSock:
    _n = 0

    def __init__(self, *a: Any, **k: Any):
        FakeSock._n += 1
        self.n = FakeSock._n
        self.closed = False
        self.inbox: List[bytes] = []
        self.sent: List[bytes] = []
        self.fail_recv: Optional[Exception] = None

    def setblocking(self, b: bool) -> None:
        pass

    def connect_ex(self, addr: Any) -> int:
        return 0

    def close(self) -> None:
        self.closed = True

    def recv(self, n: int) -> bytes:
        if self.fail_recv is not None:
            raise self.fail_recv
        if self.inbox:
            return self.inbox.pop(0)
        return b""

    def send(self, data: bytes) -> int:
        self.sent.append(data)
        return len(data)

    def fileno(self) -> int:
        return 1000 + self.n


class FakeSocketModule:
    AF_INET, SOCK_STREAM, SOL_SOCKET, SO_REUSEADDR = 2, 1, 1, 2
    socket = FakeSock


class RecordingSelector:
    def __init__(self) -> None:
        self.map: Dict[Any, Tuple[int, Any]] = {}
        self.log: List[Tuple[str, Any]] = []

    def register(self, fileobj: Any, events: int, data: Any = None) -> None:
        if fileobj in self.map:
            raise KeyError("already registered")
        self.map[fileobj] = (events, data)
        self.log.append(("register", fileobj))

    def unregister(self, fileobj: Any) -> None:
        if fileobj not in self.map:
            raise KeyError("not registered")
        del self.map[fileobj]
        self.log.append(("unregister", fileobj))

    def modify(self, fileobj: Any, events: int, data: Any = None) -> None:
        if fileobj not in self.map:
            raise KeyError("not registered")
        self.map[fileobj] = (events, data)

    def get_map(self) -> Dict[Any, Any]:
        return self.map

    def select(self, timeout: Any = None) -> List[Any]:
        return []

    def close(self) -> None:
        pass


class RecordingDisk:
    """Stands in for DiskInterface where the disk is not the subject."""

    def __init__(self) -> None:
        self.peers_written: List[Any] = []
        self.saved_blocks: List[Any] = []
        self.flushes = 0
        self.debug_saved: List[Any] = []

    def write_peers(self, peer: Any) -> None:
        self.peers_written.append((peer.host, peer.port, peer.direction))

    def load_peers(self) -> Dict[Any, Any]:
        return {}

    def save_block(self, block: Any) -> None:
        self.saved_blocks.append(block)

    def flush_blocks(self) -> None:
        self.flushes += 1

    def save_transaction_for_debugging(self, transaction: Any) -> None:
        self.debug_saved.append(transaction)


class SelKey:
    def __init__(self, fileobj: Any, data: Any):
        self.fileobj = fileobj
        self.data = data


def make_node(nonce: int = 424242, now: int = 5000, disk: Any = None, clock: Any = None) -> Any:
    """A LocalPeer built without touching the operating system."""
    import skepticoin.networking.local_peer as lpm
    import skepticoin.networking.manager as mgr
    import skepticoin.networking.remote_peer as rpm
    lpm.socket = FakeSocketModule
    t = clock if clock is not None else (lambda: now)
    lpm.time = t
    rpm.time = t
    rpm._new_context = lambda: 7          # debugging-only random number
    mgr.random = _FirstChoice
    lp = lpm.LocalPeer.__new__(lpm.LocalPeer)
    lp.disk_interface = disk if disk is not None else RecordingDisk()
    lp.port = 2412
    lp.nonce = nonce
    lp.selector = RecordingSelector()
    lp.network_manager = mgr.NetworkManager(lp, disk_interface=lp.disk_interface)
    lp.chain_manager = mgr.ChainManager(lp, now)
    lp.managers = [lp.network_manager, lp.chain_manager]
    lp.logger = logging.getLogger("skepticoin.networking.shell")
    lp.last_stats_output = ""
    lp.running = True
    return lp


class _FirstChoice:
    @staticmethod
    def choice(seq: Any) -> Any:
        return list(seq)[0]

    @staticmethod
    def randrange(*a: Any) -> int:
        return 7


def connect_peer(lp: Any, host: str, port: Any, direction: str, hello: bool = True, last_attempt: Any = None,
                 ban_score: Any = 0, register: bool = True) -> Any:
    """A ConnectedRemotePeer that is registered with the selector and the network manager the way LocalPeer does it."""
    import skepticoin.networking.remote_peer as rpm
    sock = FakeSock()
    p = rpm.ConnectedRemotePeer(lp, host, port, direction, last_attempt, sock, ban_score)
    p.hello_sent = hello
    p.hello_received = hello
    if register:
        lp.selector.register(sock, 1, data=p)
        lp.network_manager.connected_peers[(host, port, direction)] = p
    return p

"""E2: a small source -> z3 translator for closed arithmetic kernels of the repository.

The function's source is read with inspect at run time, parsed with ast and executed symbolically
over z3 terms: the result is a list of (path condition, returned value, side conditions) triples.
Python int -> z3 Int (no wrap-around). Supported subset: assignments to names, if/elif/else,
return, + - * // % ** (constant exponent or base 2), comparisons, and/or/not, min/max/pow, module
constants (int), `int.from_bytes(b, byteorder='big', signed=False)` and `x.to_bytes(n, ...)` as
the identity on mathematical integers with the side condition 0 <= x < 256**n (a violated side
condition is the OverflowError path), attribute reads on `self` (symbols supplied by the caller),
`is None` / `is not None` on optional attributes (boolean symbols supplied by the caller).
Anything else aborts the translation (TranslationError -> harness error, never success).
"""
from __future__ import annotations

import ast
import inspect
import textwrap
from typing import Any, Callable, Dict, List, Optional, Tuple

import z3


class TranslationError(Exception):
    pass


class BytesVal:
    """A big-endian byte string of known length represented by its integer value."""

    def __init__(self, n: int, val: Any):
        self.n = n
        self.val = val


class Opt:
    """Optional integer: (is_none: z3 Bool, value: z3 Int)."""

    def __init__(self, is_none: Any, val: Any):
        self.is_none = is_none
        self.val = val


class Path:
    def __init__(self, cond: Any, env: Dict[str, Any], side: List[Any]):
        self.cond = cond
        self.env = env
        self.side = side            # side conditions that must hold for the path not to raise
        self.ret: Any = None
        self.done = False
        self.raises: Optional[str] = None


POW2_CUT = 12   # pow(2, e) with symbolic e is exact for 0 <= e <= POW2_CUT and an abstract value >= 2**(CUT+1) beyond


class Translator:
    def __init__(self, fn: Callable, selfobj: Optional[Dict[str, Any]] = None, inline: Optional[Dict[str, Callable]] = None):
        self.fn = fn
        self.globals = fn.__globals__
        self.selfobj = selfobj or {}
        self.inline = inline or {}
        self.log: List[str] = []
        self.fresh = 0
        self.extra_assumptions: List[Any] = []
        src = textwrap.dedent(inspect.getsource(fn))
        self.tree = ast.parse(src).body[0]
        if not isinstance(self.tree, ast.FunctionDef):
            raise TranslationError("not a function")
        self.log.append("translated %s.%s (%d source lines)" % (fn.__module__, fn.__qualname__, len(src.splitlines())))

    # -- expressions ------------------------------------------------------------------------------
    def expr(self, e: ast.AST, p: Path) -> Any:
        if isinstance(e, ast.Constant):
            if isinstance(e.value, bool):
                return z3.BoolVal(e.value)
            if isinstance(e.value, int):
                return z3.IntVal(e.value)
            if e.value is None:
                return None
            if isinstance(e.value, (str, bytes)):
                return e.value
            raise TranslationError("constant %r" % (e.value,))
        if isinstance(e, ast.Name):
            if e.id in p.env:
                return p.env[e.id]
            if e.id in self.globals:
                g = self.globals[e.id]
                if isinstance(g, bool):
                    return z3.BoolVal(g)
                if isinstance(g, int):
                    return z3.IntVal(g)
                if isinstance(g, bytes):
                    return BytesVal(len(g), z3.IntVal(int.from_bytes(g, "big")))
                return g
            raise TranslationError("unknown name %s" % e.id)
        if isinstance(e, ast.Attribute):
            if isinstance(e.value, ast.Name) and e.value.id == "self":
                if e.attr in self.selfobj:
                    return self.selfobj[e.attr]
                raise TranslationError("self.%s not supplied" % e.attr)
            base = self.expr(e.value, p)
            if isinstance(base, dict) and e.attr in base:
                return base[e.attr]
            raise TranslationError("attribute %s" % ast.dump(e))
        if isinstance(e, ast.BinOp):
            a, b = self.expr(e.left, p), self.expr(e.right, p)
            if isinstance(a, Opt):
                p.side.append(z3.Not(a.is_none))     # arithmetic on None would raise
                a = a.val
            if isinstance(b, Opt):
                p.side.append(z3.Not(b.is_none))
                b = b.val
            if z3.is_expr(a) and z3.is_expr(b) and z3.is_int_value(a) and z3.is_int_value(b) and not isinstance(e.op, (ast.FloorDiv, ast.Mod, ast.Pow)):
                av, bv = a.as_long(), b.as_long()
                if isinstance(e.op, ast.Add):
                    return z3.IntVal(av + bv)
                if isinstance(e.op, ast.Sub):
                    return z3.IntVal(av - bv)
                if isinstance(e.op, ast.Mult):
                    return z3.IntVal(av * bv)
            if isinstance(e.op, ast.Add):
                return a + b
            if isinstance(e.op, ast.Sub):
                return a - b
            if isinstance(e.op, ast.Mult):
                return a * b
            if isinstance(e.op, ast.FloorDiv):
                return self.floordiv(a, b, p)
            if isinstance(e.op, ast.Mod):
                return self.mod(a, b, p)
            if isinstance(e.op, ast.Pow):
                return self.power(a, b, p)
            raise TranslationError("operator %s" % type(e.op).__name__)
        if isinstance(e, ast.UnaryOp):
            v = self.expr(e.operand, p)
            if isinstance(e.op, ast.Not):
                return z3.Not(self.truth(v))
            if isinstance(e.op, ast.USub):
                return -v
            raise TranslationError("unary")
        if isinstance(e, ast.BoolOp):
            vs = [self.truth(self.expr(x, p)) for x in e.values]
            return z3.And(*vs) if isinstance(e.op, ast.And) else z3.Or(*vs)
        if isinstance(e, ast.Compare):
            left = self.expr(e.left, p)
            out = []
            for op, right_e in zip(e.ops, e.comparators):
                right = self.expr(right_e, p)
                out.append(self.compare(op, left, right))
                left = right
            return z3.And(*out) if len(out) > 1 else out[0]
        if isinstance(e, ast.Call):
            return self.call(e, p)
        raise TranslationError("expression %s" % type(e).__name__)

    def truth(self, v: Any) -> Any:
        if z3.is_bool(v):
            return v
        if z3.is_int(v):
            return v != 0
        raise TranslationError("truth of %r" % (v,))

    def compare(self, op: ast.AST, a: Any, b: Any) -> Any:
        if isinstance(op, (ast.Is, ast.IsNot)):
            if b is None and isinstance(a, Opt):
                return a.is_none if isinstance(op, ast.Is) else z3.Not(a.is_none)
            raise TranslationError("is-comparison")
        if isinstance(a, Opt):
            a = a.val
        if isinstance(b, Opt):
            b = b.val
        if isinstance(a, BytesVal) and isinstance(b, BytesVal):
            if a.n != b.n:
                raise TranslationError("bytes of different lengths compared")
            a, b = a.val, b.val    # big-endian, equal length: lexicographic order == numeric order
        if isinstance(op, ast.Lt):
            return a < b
        if isinstance(op, ast.LtE):
            return a <= b
        if isinstance(op, ast.Gt):
            return a > b
        if isinstance(op, ast.GtE):
            return a >= b
        if isinstance(op, ast.Eq):
            return a == b
        if isinstance(op, ast.NotEq):
            return a != b
        raise TranslationError("comparison %s" % type(op).__name__)

    def floordiv(self, a: Any, b: Any, p: Path) -> Any:
        # Python floor division; z3's Int division rounds toward -inf for positive divisors
        if z3.is_int_value(b) and b.as_long() > 0:
            return a / b
        p.side.append(b > 0)
        return a / b

    def mod(self, a: Any, b: Any, p: Path) -> Any:
        if z3.is_int_value(b) and b.as_long() > 0:
            return a % b
        p.side.append(b > 0)
        return a % b

    def power(self, a: Any, b: Any, p: Path) -> Any:
        if z3.is_int_value(a) and z3.is_int_value(b):
            return z3.IntVal(a.as_long() ** b.as_long())
        if z3.is_int_value(b):
            r = z3.IntVal(1)
            for _ in range(b.as_long()):
                r = r * a
            return r
        if z3.is_int_value(a) and a.as_long() == 2:
            # exact up to the cut, abstract (>= 2**(cut+1)) beyond it
            self.fresh += 1
            big = z3.Int("pow2_big_%d" % self.fresh)
            self.extra_assumptions.append(big >= 2 ** (POW2_CUT + 1))
            p.side.append(b >= 0)
            r = big
            for k in range(POW2_CUT, -1, -1):
                r = z3.If(b == k, z3.IntVal(2 ** k), r)
            self.log.append("pow(2, e): exact for 0 <= e <= %d, abstract value >= 2^%d beyond" % (POW2_CUT, POW2_CUT + 1))
            return r
        raise TranslationError("power with symbolic base and exponent")

    def call(self, e: ast.Call, p: Path) -> Any:
        f = e.func
        args = [self.expr(a, p) for a in e.args]
        if isinstance(f, ast.Name):
            if f.id == "pow" and len(args) == 2:
                return self.power(args[0], args[1], p)
            if f.id == "min":
                r = args[0]
                for a in args[1:]:
                    r = z3.If(a < r, a, r)
                return r
            if f.id == "max":
                r = args[0]
                for a in args[1:]:
                    r = z3.If(a > r, a, r)
                return r
            if f.id == "int" and len(args) == 1:
                return args[0]
            if f.id in self.inline:
                sub = Translator(self.inline[f.id], inline=self.inline)
                self.log += sub.log
                return ("inline", sub, args)
            raise TranslationError("call to %s" % f.id)
        if isinstance(f, ast.Attribute):
            if isinstance(f.value, ast.Name) and f.value.id == "int" and f.attr == "from_bytes":
                b = args[0]
                if not isinstance(b, BytesVal):
                    raise TranslationError("from_bytes of non-bytes")
                kw = {k.arg: self.expr(k.value, p) for k in e.keywords}
                if kw.get("byteorder", args[1] if len(args) > 1 else None) != "big":
                    raise TranslationError("byteorder")
                return b.val
            if f.attr == "to_bytes":
                x = self.expr(f.value, p)
                kw = {k.arg: self.expr(k.value, p) for k in e.keywords}
                n = args[0] if args else kw.get("length")
                if not z3.is_int_value(n):
                    raise TranslationError("to_bytes length")
                nn = n.as_long()
                p.side.append(z3.And(x >= 0, x < 256 ** nn))
                return BytesVal(nn, x)
        raise TranslationError("call %s" % ast.dump(f))

    # -- statements -------------------------------------------------------------------------------
    def run(self, args: Dict[str, Any]) -> List[Path]:
        p0 = Path(z3.BoolVal(True), dict(args), [])
        paths = self.block(self.tree.body, [p0])
        for p in paths:
            if not p.done:
                p.done, p.ret = True, None
        return paths

    def block(self, stmts: List[ast.stmt], paths: List[Path]) -> List[Path]:
        for s in stmts:
            nxt: List[Path] = []
            for p in paths:
                if p.done:
                    nxt.append(p)
                    continue
                nxt += self.stmt(s, p)
            paths = nxt
        return paths

    def stmt(self, s: ast.stmt, p: Path) -> List[Path]:
        if isinstance(s, ast.Expr) and isinstance(s.value, ast.Constant):
            return [p]
        if isinstance(s, (ast.Assign, ast.AnnAssign)):
            tgt = s.targets[0] if isinstance(s, ast.Assign) else s.target
            if not isinstance(tgt, ast.Name):
                raise TranslationError("assignment target")
            p.env[tgt.id] = self.expr(s.value, p)
            return [p]
        if isinstance(s, ast.Return):
            p.ret = self.expr(s.value, p) if s.value is not None else None
            p.done = True
            return [p]
        if isinstance(s, ast.If):
            c = self.truth(self.expr(s.test, p))
            pt = Path(z3.And(p.cond, c), dict(p.env), list(p.side))
            pf = Path(z3.And(p.cond, z3.Not(c)), dict(p.env), list(p.side))
            return self.block(s.body, [pt]) + self.block(s.orelse, [pf])
        if isinstance(s, ast.Raise):
            p.done = True
            p.raises = "raise"
            return [p]
        raise TranslationError("statement %s" % type(s).__name__)


class Queries:
    """One z3 solver, push/pop per query; every query is also re-checked by the z3 4.8.12 binary."""

    def __init__(self) -> None:
        self.solver = z3.Solver()
        self.count = 0
        self.log: List[Dict[str, Any]] = []
        self.time = 0.0

    def check(self, name: str, assumptions: List[Any], negated_goal: Any, timeout_ms: int = 60000) -> Tuple[str, Optional[Dict[str, int]]]:
        import time
        t0 = time.time()
        s = self.solver
        s.push()
        s.set("timeout", timeout_ms)
        for a in assumptions:
            s.add(a)
        s.add(negated_goal)
        r = str(s.check())
        model = None
        if r == "sat":
            m = s.model()
            model = {}
            for d in m.decls():
                v = m[d]
                try:
                    model[d.name()] = v.as_long() if z3.is_int_value(v) else str(v)
                except Exception:
                    model[d.name()] = str(v)
        smt = s.to_smt2()
        s.pop()
        second = _second_opinion(smt)
        if second is not None and second != r and "unknown" not in (second, r):
            r = "disagree(%s/%s)" % (r, second)
        self.count += 1
        dt = time.time() - t0
        self.time += dt
        self.log.append({"query": name, "result": r, "second_solver": second, "s": round(dt, 3)})
        return r, model

    def sat(self, name: str, assumptions: List[Any]) -> bool:
        """vacuity guard: the assumption set itself must be satisfiable"""
        r, _ = self.check(name + "#assumptions-sat", assumptions, z3.BoolVal(True))
        return r == "sat"


def _second_opinion(smt2: str) -> Optional[str]:
    import subprocess
    import os
    if not os.path.exists("/usr/bin/z3"):
        return None
    try:
        out = subprocess.run(["/usr/bin/z3", "-in", "-T:30"], input=smt2, capture_output=True, text=True, timeout=40).stdout
    except Exception:
        return None
    if "(error" in out:
        return "unknown"
    for line in out.splitlines():
        line = line.strip()
        if line in ("sat", "unsat", "unknown"):
            return line
    return "unknown"

"""Turning a flat list of symbolic integers into typed field values.

A harness takes `vs: List[int]`; `Draw(vs)` hands the integers out one by one with the range
assumption of the requested field width. An out-of-range value raises Assume (the harness
returns True: the input is outside the domain). `count_draws(build)` runs a builder once on a
counting stand-in to learn how many integers it needs, so that the list length can be pinned.
"""
from __future__ import annotations

from typing import Callable, List


class Assume(Exception):
    """Input outside the stated domain of the harness."""


class Draw:
    # 64-bit and wider fields are drawn as a 16-bit symbolic window shifted by `w` bytes
    # (v = s * 256**w, 0 <= s <= 0xFFFF): the full-width struct round trip is solver-hard
    # (probed: '>Q' pack/unpack on an unconstrained 64-bit value does not finish, a 16-bit window
    # at any byte offset confirms in < 0.1 s). The window offset is a case split of the harness.
    w = 0

    def __init__(self, vs: List[int], w: int = 0):
        self.vs = vs
        self.i = 0
        self.w = w

    def raw(self) -> int:
        v = self.vs[self.i]
        self.i += 1
        return v

    def rng(self, lo: int, hi: int) -> int:
        """integer in [lo, hi]"""
        v = self.raw()
        if not (lo <= v <= hi):
            raise Assume()
        return v

    def u8(self) -> int:
        return self.rng(0, 0xFF)

    def u16(self) -> int:
        return self.rng(0, 0xFFFF)

    def u32(self) -> int:
        return self.rng(0, 0xFFFFFFFF)

    def u64(self) -> int:
        return self.wide(8)

    def wide(self, nbytes: int) -> int:
        """nbytes-wide unsigned field: 16-bit symbolic window at byte offset min(w, nbytes-2)."""
        s = self.rng(0, 0xFFFF)
        return s * 256 ** min(self.w, nbytes - 2)

    def choice(self, n: int) -> int:
        return self.rng(0, n - 1)

    def blob(self, k: int, sym: int = 2, fill: int = 0x33) -> bytes:
        """k bytes of which min(sym,k) are symbolic (spread over first/last positions), the rest a filler."""
        if k == 0:
            return b""
        if sym >= k:
            return bytes([self.u8() for _ in range(k)])
        if sym <= 0:
            return bytes([fill]) * k
        if sym == 1:
            return bytes([self.u8()]) + bytes([fill]) * (k - 1)
        head = sym // 2
        tail = sym - head
        return bytes([self.u8() for _ in range(head)]) + bytes([fill]) * (k - sym) + bytes([self.u8() for _ in range(tail)])

    def done(self) -> bool:
        return self.i == len(self.vs)


class _Counting(Draw):
    def __init__(self):
        self.n = 0

    def raw(self) -> int:
        self.n += 1
        return 0

    def rng(self, lo: int, hi: int) -> int:
        self.n += 1
        return lo


def count_draws(build: Callable[[Draw], object]) -> int:
    c = _Counting()
    build(c)
    return c.n


def witness(build: Callable[[Draw], object]) -> List[int]:
    """A concrete in-domain input (every field at its lower bound)."""
    rec: List[int] = []

    class _Rec(Draw):
        def __init__(self):
            pass

        def raw(self) -> int:
            rec.append(0)
            return 0

        def rng(self, lo: int, hi: int) -> int:
            rec.append(lo)
            return lo
    build(_Rec())
    return rec

"""Harness prelude: engine patch, logger bodies, scratch cwd, import order of the repository.

Everything here is applied from the harness process at run time; neither the installed CrossHair
package nor /repo is edited.
"""
from __future__ import annotations

import logging
import os
import sys

_ENGINE_PATCHED = False

# The repository under analysis. Registered checks always use /repo; VERIF_REPO lets the maintainer of /verif point the
# same machinery at a scratch worktree (seeded-change matrix) without touching /repo.
REPO = os.environ.get("VERIF_REPO", "/repo").rstrip("/")
if REPO != "/repo" and REPO not in sys.path:
    sys.path.insert(0, REPO)


def patch_engine() -> None:
    """CrossHair 0.0.110 reads the wrong stack slot for FORMAT_VALUE with conversion+spec (flags
    0x05), the opcode CPython 3.12 emits for every `"%15s ... %s" % (a, b)` log line of
    skepticoin/networking. The replacement tests bit 0x04 (a format spec is on the stack) instead of
    comparing for equality; nothing else changes."""
    global _ENGINE_PATCHED
    if _ENGINE_PATCHED:
        return
    from crosshair import opcode_intercept as oi

    def trace_op(self, frame, codeobj, codenum):  # copy of the original with `flags & 0x04`
        flags = oi.frame_op_arg(frame)
        value_idx = -2 if (flags & 0x04) else -1
        orig_obj = oi.frame_stack_read(frame, value_idx)
        wrapper = oi.FormatStashingValue(orig_obj)
        if flags in (0x00, 0x01) and isinstance(orig_obj, oi.AnySymbolicStr):
            wrapper.formatted = orig_obj
            oi.frame_stack_write(frame, value_idx, "")
        else:
            oi.frame_stack_write(frame, value_idx, wrapper)

        def post_op():
            oi.frame_stack_write(frame, -1, wrapper.formatted)

        oi.COMPOSITE_TRACER.set_postop_callback(post_op, frame)

    oi.FormatValueInterceptor.trace_op = trace_op
    _ENGINE_PATCHED = True


def silence_loggers() -> None:
    """Logger methods get empty bodies (formatting is not the subject of any property)."""
    def _nop(self, *a, **k):
        return None
    for name in ("info", "debug", "warning", "error", "critical", "exception", "log"):
        setattr(logging.Logger, name, _nop)


def import_repo():
    """Import the repository's modules in an order that survives its circular imports and return
    the package. Must be called with a scratch cwd (import of skepticoin.blockstore creates
    ./chain.db)."""
    assert os.path.realpath(os.getcwd()) not in ("/repo", "/verif"), "never import with cwd in /repo or /verif"
    sys.dont_write_bytecode = True
    import skepticoin  # noqa
    import skepticoin.serialization  # noqa
    import skepticoin.signing  # noqa
    import skepticoin.datatypes  # noqa
    import skepticoin.coinstate  # noqa
    import skepticoin.consensus  # noqa
    return skepticoin


def import_repo_networking():
    import_repo()
    import contextlib
    import io
    with contextlib.redirect_stdout(io.StringIO()):   # blockstore prints "Creating new block database" at import
        import skepticoin.networking.local_peer  # noqa  (must precede manager: circular import)
    import skepticoin.networking.manager  # noqa
    import skepticoin.networking.remote_peer  # noqa
    import skepticoin.networking.messages  # noqa
    import skepticoin.networking.disk_interface  # noqa
    import skepticoin
    return skepticoin

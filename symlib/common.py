"""Helpers shared by harness modules."""
from __future__ import annotations

import inspect
import traceback
from typing import Any, Callable, Dict, List, Optional

from symlib.runner import Ob


def generic_replay(mod, ob: Ob, model: Dict[str, Any], key: Optional[str] = None,
                   classify: Optional[Callable[[Ob, Dict[str, Any], str], Optional[str]]] = None) -> Dict[str, Any]:
    """Replay = the same harness body run as ordinary Python (no tracer) on the model's concrete
    arguments, built in real mode (`real=True`: real io.BytesIO / immutables / hashlib / ecdsa /
    sqlite wherever the builder supports it). Reproduced iff it does not return True."""
    builder = getattr(mod, ob.builder)
    params = dict(ob.params)
    if "real" in inspect.signature(builder).parameters:
        params["real"] = True
    built = builder(**params)
    fn = built[0] if isinstance(built, tuple) else built
    names = list(inspect.signature(fn).parameters)
    kwargs = {k: v for k, v in model.items() if k in names}
    detail = ""
    try:
        out = fn(**kwargs)
        reproduced = out is not True
        detail = "real-mode harness returned %r on %r" % (out, kwargs)
    except Exception as e:  # noqa
        reproduced = True
        detail = "real-mode harness raised %s: %s on %r\n%s" % (type(e).__name__, e, kwargs, traceback.format_exc()[-800:])
    k = key
    if classify is not None and reproduced:
        k = classify(ob, model, detail) or key
    return {"reproduced": reproduced, "detail": detail, "key": k, "mode": "real" if "real" in params else "same"}


def twin_of(ob: Ob, timeout: float = 300.0) -> Ob:
    """Vacuity twin: same builder and params with twin=True; must come back refuted."""
    p = dict(ob.params)
    p["twin"] = True
    return Ob(name=ob.name + "#twin", clause=ob.clause, builder=ob.builder, params=p, kind=ob.kind,
              expect="refuted", timeout=timeout, role="twin")


def with_twins(obs: List[Ob], every: int = 1) -> List[Ob]:
    out: List[Ob] = []
    for i, o in enumerate(obs):
        out.append(o)
        if o.role == "main" and o.kind == "e1" and i % every == 0:
            out.append(twin_of(o))
    return out

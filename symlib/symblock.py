"""SymBlock: a synthetic chain state and a candidate block with symbolic content, plus the reference
verdict of full validation (an independent restatement of the consensus rules, ~60 lines).

World (heights concrete unless a harness says otherwise):

    R (height 0) --- P (height 1)  <- candidate N builds here (height 2)
                \\-- F (height 1)  <- sibling fork (optionally the served head)

Unspent map at P (owners concrete, values symbolic):
    (T10,0) -> K0   (T10,1) -> K1   (T11,0) -> K0   (T12,0) -> K2
Spent by P (still unspent on F):    (T14,0) -> K3   "spent earlier"
Only in F's map (other fork):      F's reward output (T3,0) -> K3   "other-fork output"
The blocks carry the transactions that create / spend these outputs, so replaying R, P (or R, F) from scratch
reproduces the maps.
Reference pool for an input:  0..3 the four unspent ids T10,T10,T11,T12 (by id; the index is a free
symbolic 32-bit number, so (T10,7) is a missing output), 4 spent-earlier T14, 5 other-fork T13,
6 never-existed T15, 7 this block's reward transaction, 8 this block's first ordinary transaction,
9 the null reference id 00..00.
Signature kinds: 0 owner signs this transaction, 1 another key signs it, 2 owner signs it with an
output value changed, 3 owner signs it with a reference index changed, 4 SignableEquivalent,
5 CoinbaseData, 6 never-signed 64 bytes.
"""
from __future__ import annotations

from typing import Any, Callable, Dict, List, Optional, Tuple

from symlib.world import Env, tok, TX, BLK, MRK, ZERO32, MAXTARGET

MAX_SASHIMI = 2_099_999_986_350_000
MAX_FUTURE = 30
INITIAL_SUBSIDY = 1_000_000_000
HALVING = 1_050_000
RETARGET = 10_080

POOL_IDS = [tok(TX, 10), tok(TX, 10), tok(TX, 11), tok(TX, 12), tok(TX, 14), tok(TX, 3), tok(TX, 15), None, None, ZERO32]
POOL_NAMES = ["unspent-a", "unspent-b", "unspent-c", "unspent-d", "spent-earlier", "other-fork", "never-existed",
              "this-block-reward", "this-block-tx1", "null"]
UNSPENT_AT_P = [(tok(TX, 10), 0, 0), (tok(TX, 10), 1, 1), (tok(TX, 11), 0, 0), (tok(TX, 12), 0, 2)]  # (id, index, owner)
SIG_NAMES = ["owner", "other-key", "owner-signed-changed-output", "owner-signed-changed-reference", "SignableEquivalent",
             "CoinbaseData", "never-signed-bytes"]


def ref_subsidy(h: int) -> int:
    k = h // HALVING
    if k >= 64:
        return 0
    return INITIAL_SUBSIDY // (2 ** k)


class World:
    def __init__(self, real: bool = False, networking: bool = False, h: int = 2, served_head: str = "P", lro: bool = False):
        self.env = Env(real=real, networking=networking)
        self.real = real
        self.lro = lro                  # hash oracles hand out 32-byte tokens (needed when objects pass through the fixed-width decoders)
        self.h = h                      # height of the candidate
        env = self.env
        dt, sg, cons = env.dt, env.sg, env.cons
        self.dt, self.sg, self.cons = dt, sg, cons
        # the candidate sits exactly one above the checkpoint horizon: the first height at which full validation applies
        env.cons.MAX_KNOWN_HASH_HEIGHT = h - 1
        env.cons.KNOWN_HASHES = {}
        self._install_crypto()
        # keys
        self.keys = [self.pubkey(i) for i in range(4)]
        # -- stored blocks -----------------------------------------------------------------------
        self.cbR = env.coinbase(0, [dt.Output(5, self.keys[3])], tok(TX, 1))
        self.cbP = env.coinbase(h - 1, [dt.Output(5, self.keys[3])], tok(TX, 2))
        self.cbF = env.coinbase(h - 1, [dt.Output(5, self.keys[3])], tok(TX, 3))
        self.R = env.block(h - 2, ZERO32, [self.cbR], tok(BLK, 0), ts=1000)
        self.P = env.block(h - 1, self.R.hash(), [self.cbP], tok(BLK, 1), ts=2000)
        self.F = env.block(h - 1, self.R.hash(), [self.cbF], tok(BLK, 2), ts=2001)
        self.served_head = served_head

    # -- crypto environment ---------------------------------------------------------------------
    def _install_crypto(self) -> None:
        env = self.env
        if self.real:
            import hashlib
            import ecdsa
            import scrypt as _scrypt
            import skepticoin.hash as hmod
            import importlib
            importlib.reload(hmod)
            self.sha256d, self.blake2, self.scrypt = hmod.sha256d, hmod.blake2, hmod.scrypt
            from symlib.stubs.oracles import install_hashes
            install_hashes(hmod.sha256d, hmod.blake2, hmod.scrypt)
            import skepticoin.pow as pw
            importlib.reload(pw)
            env.cons.select_n_k_length_slices_from_chain = pw.select_n_k_length_slices_from_chain
            env.sg.ecdsa = ecdsa
            self._sks = [ecdsa.SigningKey.from_secret_exponent(1000 + i, curve=ecdsa.SECP256k1) for i in range(4)]
            if self.h <= 16:
                self.sample = lambda sh, height, get: pw.select_n_k_length_slices_from_chain(sh, height, get, 8, 4)
            else:
                # a world at a large height has no real ancestors to sample from: the oracle stands in (stated in the replay)
                self._install_sample_oracle()
        else:
            from symlib.stubs.oracles import TI, LRO, install_hashes
            from symlib.stubs import idealsig
            if self.lro:
                self.sha256d, self.blake2, self.scrypt = LRO(0x07), LRO(0x08), LRO(0x09)
            else:
                self.sha256d, self.blake2, self.scrypt = TI(b"\x01"), TI(b"\x02"), TI(b"\x03")
            install_hashes(self.sha256d, self.blake2, self.scrypt)
            self.ideal = idealsig.install()
            self._install_sample_oracle()

    def _install_sample_oracle(self) -> None:
        self.sample_log: List[Tuple[int, bytes]] = []

        def sample(sh: bytes, height: int, get: Callable[[int], Any]) -> bytes:
            # chain-sample oracle: a deterministic injective function of (summary hash, the ancestor view's blocks at
            # height-1 and height-2); the real sampler is the subject of C05.e(ii).
            # A stated height above the view's real length would index blocks that do not exist; the real sampler draws
            # pseudo-random indices below the stated height, so an adversary who grinds the nonce gets indices that do
            # exist. The oracle grants that: it falls back to the view's real top (the height rule, not a missing ancestor,
            # must be what refuses such a block). Opt-in per harness (World.sample_grant = True): C05's height rule.
            try:
                top = get(height - 1).hash()
                below = get(height - 2).hash() if height >= 2 else top
            except KeyError:
                if not getattr(self, "sample_grant", False):
                    raise           # default: a stated height without ancestors makes the sampler fail, as the real one does
                top = get(self.h - 1).hash()
                below = get(self.h - 2).hash() if self.h >= 2 else top
            self.sample_log.append((height, top))
            return b"CS" + top[:2] + below[:2] + bytes([len(sh) & 0xFF]) + sh[-4:] + b"\x00" * 21

        self.sample = sample
        self.env.cons.select_n_k_length_slices_from_chain = lambda sh, height, get, n, k: sample(sh, height, get)

    def pubkey(self, i: int) -> Any:
        if self.real:
            return self.sg.SECP256k1PublicKey(self._sks[i].verifying_key.to_string())
        from symlib.stubs.idealsig import make_key
        return self.sg.SECP256k1PublicKey(make_key(i)[0])

    def sign(self, i: int, message: bytes) -> bytes:
        if self.real:
            return self._sks[i].sign(message)
        return self.ideal.registry.sign(self.keys[i].public_key, message)

    # -- chain state ----------------------------------------------------------------------------
    def state(self, pv: List[int], fv: int = 9, pts: Any = None, ptarget: Any = None, start_ts: Any = None) -> Any:
        """CoinState holding R, P, F, consistent with the blocks' transactions (so that a replay from the root gives the
        same maps). pv = the four symbolic values of P's unspent outputs; fv = value of the sibling fork's reward output
        (the only output that exists on F but not on P); pts / ptarget = parent's timestamp / target (symbolic allowed);
        start_ts = (ts on P's view, ts on F's view) of the block at height h - 10080 (the retarget period's first
        block), which differs between the two views."""
        env, dt = self.env, self.dt
        k = self.keys
        h = self.h
        # transactions that created the outputs (no inputs: their origin is outside the window the harness looks at)
        t10 = dt.Transaction([], [dt.Output(pv[0], k[0]), dt.Output(pv[1], k[1])], cached_hash=tok(TX, 10))
        t11 = dt.Transaction([], [dt.Output(pv[2], k[0])], cached_hash=tok(TX, 11))
        t12 = dt.Transaction([], [dt.Output(pv[3], k[2])], cached_hash=tok(TX, 12))
        t14 = dt.Transaction([], [dt.Output(7, k[3])], cached_hash=tok(TX, 14))      # a different owner: never byte-identical to t11
        s14 = dt.Transaction([dt.Input(dt.OutputReference(tok(TX, 14), 0), self.sg.SECP256k1Signature(bytes([0x77]) * 64))], [],
                             cached_hash=tok(TX, 16))                    # P spends (T14,0): "spent earlier"
        self.cbF = env.coinbase(h - 1, [dt.Output(fv, k[3])], tok(TX, 3))
        self.R = env.block(h - 2, ZERO32, [self.cbR, t10, t11, t12, t14], tok(BLK, 0), ts=1000)
        self.P = env.block(h - 1, self.R.hash(), [self.cbP, s14], tok(BLK, 1), ts=2000 if pts is None else pts,
                           target=MAXTARGET if ptarget is None else ptarget)
        self.F = env.block(h - 1, self.R.hash(), [self.cbF], tok(BLK, 2), ts=2001, merkle=self.cbF.hash())   # by-itself valid
        outs_P = [((dt.OutputReference(i, n)), o) for (i, n, o) in
                  [(tok(TX, 10), 0, t10.outputs[0]), (tok(TX, 10), 1, t10.outputs[1]), (tok(TX, 11), 0, t11.outputs[0]),
                   (tok(TX, 12), 0, t12.outputs[0])]]
        cb = lambda tx: (dt.OutputReference(tx.hash(), 0), tx.outputs[0])  # noqa
        e14 = (dt.OutputReference(tok(TX, 14), 0), t14.outputs[0])
        uR = env.mk_map([cb(self.cbR)] + outs_P + [e14])
        uP = env.mk_map([cb(self.cbR)] + outs_P + [cb(self.cbP)])
        uF = env.mk_map([cb(self.cbR)] + outs_P + [e14, cb(self.cbF)])
        R, P, F = self.R, self.P, self.F
        exP: List[Tuple[Any, Any]] = []
        exF: List[Tuple[Any, Any]] = []
        blocks = {R.hash(): R, P.hash(): P, F.hash(): F}
        if start_ts is not None:
            sh = self.h - RETARGET
            self.SP = env.block(sh, tok(BLK, 30), [self.cbR], tok(BLK, 31), ts=start_ts[0])
            self.SF = env.block(sh, tok(BLK, 30), [self.cbR], tok(BLK, 32), ts=start_ts[1])
            exP, exF = [(sh, self.SP)], [(sh, self.SF)]
            blocks[self.SP.hash()] = self.SP
            blocks[self.SF.hash()] = self.SF
        iR = env.mk_map([(R.height, R)])
        iP = env.mk_map(exP + [(R.height, R), (P.height, P)])
        iF = env.mk_map(exF + [(R.height, R), (F.height, F)])
        head = {"P": P, "F": F}[self.served_head]
        return env.state(blocks,
                         {R.hash(): uR, P.hash(): uP, F.hash(): uF},
                         {R.hash(): iR, P.hash(): iP, F.hash(): iF},
                         {P.hash(): P, F.hash(): F}, head.hash())

    # -- candidate ------------------------------------------------------------------------------
    def ref_of(self, c: int, idx: int, cb_id: bytes, tx1_id: Optional[bytes]) -> Any:
        if c == 7:
            i = cb_id
        elif c == 8:
            i = tx1_id if tx1_id is not None else tok(TX, 15)
        else:
            i = POOL_IDS[c]
        return self.dt.OutputReference(i, idx)

    def owner_of(self, ref: Any, pv: List[int]) -> Optional[Tuple[int, int]]:
        """(owner label, value) if ref is unspent at P, else None."""
        for j, (i, n, o) in enumerate(UNSPENT_AT_P):
            if ref.hash == i and ref.index == n:
                return (o, pv[j])
        if ref.hash == self.cbR.hash() and ref.index == 0:
            return (3, 5)
        if ref.hash == self.cbP.hash() and ref.index == 0:
            return (3, 5)
        return None

    def make_tx(self, txid: bytes, ins: List[Tuple[int, int, int]], outs: List[Tuple[int, int]], pv: List[int],
                cb_id: bytes, tx1_id: Optional[bytes]) -> Any:
        """ins = [(pool choice, index, signature kind)], outs = [(value, owner label)]."""
        dt, sg = self.dt, self.sg
        refs = [self.ref_of(c, idx, cb_id, tx1_id) for (c, idx, _) in ins]
        outputs = [dt.Output(v, self.keys[o]) for (v, o) in outs]

        def message(refs_: List[Any], outs_: List[Any]) -> bytes:
            return dt.Transaction([dt.Input(r, sg.SignableEquivalent()) for r in refs_], outs_).serialize()

        msg = message(refs, outputs)
        inputs = []
        self.last_originals: List[Any] = []     # the transactions that were really signed (kinds 2 and 3)
        for n, ((c, idx, kind), ref) in enumerate(zip(ins, refs)):
            own = self.owner_of(ref, pv)
            owner = own[0] if own is not None else 0
            if kind == 0:
                s: Any = sg.SECP256k1Signature(self.sign(owner, msg))
            elif kind == 1:
                s = sg.SECP256k1Signature(self.sign((owner + 1) % 3, msg))
            elif kind == 2:
                o2 = [dt.Output(outputs[0].value + 1, outputs[0].public_key)] + outputs[1:] if outputs else outputs
                s = sg.SECP256k1Signature(self.sign(owner, message(refs, o2)))
                self.last_originals.append((refs, o2, n, s))
            elif kind == 3:
                r2 = [dt.OutputReference(refs[0].hash, (refs[0].index + 1) % (2 ** 32))] + refs[1:]
                s = sg.SECP256k1Signature(self.sign(owner, message(r2, outputs)))
                self.last_originals.append((r2, outputs, n, s))
            elif kind == 4:
                s = sg.SignableEquivalent()
            elif kind == 5:
                s = sg.CoinbaseData(self.h, b"")
            else:
                s = sg.SECP256k1Signature(bytes([0x99]) * 64)
            inputs.append(dt.Input(ref, s))
        return dt.Transaction(inputs, outputs, cached_hash=txid)

    def ref_merkle(self, ids: List[bytes]) -> bytes:
        xs = list(ids)
        while len(xs) > 1:
            nxt = []
            i = 0
            while i < len(xs):
                nxt.append(self.sha256d(xs[i] + xs[i + 1]) if i + 1 < len(xs) else xs[i])
                i += 2
            xs = nxt
        return xs[0]

    def ref_evidence(self, summary: Any, height: int, parent: Any, state: Any, txs: List[Any], sh_override: Any = None) -> Any:
        """Evidence as the property states it: scrypt over (summary, height), sample from the PARENT's ancestor view,
        blake2 over summary-hash || sample || serialized transaction list. sh_override: a forged summary hash from which
        the other two fields are derived consistently."""
        dt = self.dt
        sh = self.scrypt(summary.serialize(), height.to_bytes(8, "big")) if sh_override is None else sh_override
        idx = state.block_by_height_by_hash[parent.hash()]
        if height == 0:
            sample = b"\x00" * 32
        else:
            sample = self.sample(sh, height, lambda hh: idx[hh])
        f = self.env.ser.BytesIO()
        self.env.ser.stream_serialize_list(f, txs)
        bh = self.blake2(sh + sample + f.getvalue())
        return dt.PowEvidence(sh, sample, bh)

    def candidate(self, state: Any, txs: List[Any], ts: Any, parent: Optional[Any] = None, height: Optional[Any] = None,
                  target: Optional[bytes] = None, bid: Optional[bytes] = tok(BLK, 5), merkle: Optional[bytes] = None,
                  evidence: Optional[Any] = None, nonce: int = 0, forge_sh: Any = None) -> Any:
        dt = self.dt
        parent = parent if parent is not None else self.P
        height = self.h if height is None else height
        tgt = target if target is not None else MAXTARGET
        mrk = merkle if merkle is not None else self.ref_merkle([t.hash() for t in txs])
        tries = 0
        while True:
            summary = dt.BlockSummary(height, parent.hash(), mrk, ts, tgt, nonce)
            ev = evidence if evidence is not None else self.ref_evidence(summary, height, parent, state, txs, sh_override=forge_sh)
            hdr = dt.BlockHeader(summary, ev)
            # real mode: the adversary is given proof of work - grind the nonce until the real header hash is below the target
            if not self.real or tries >= 400 or hdr.hash() < tgt:
                break
            nonce += 1
            tries += 1
        return dt.Block(hdr, txs, hash=bid)


def utxo_total(m: Any) -> int:
    t = 0
    for (_, o) in m.items():
        t += o.value
    return t

#!/bin/bash
# Build the overlay venv used by every check: /venv's packages (the repository's own dependencies)
# + crosshair-tool/z3 from the offline wheelhouse + /repo on the path (current working tree).
set -e
cd "$(dirname "$0")"
V=/verif/.venv
if [ ! -x "$V/bin/python" ] || ! "$V/bin/python" -c "import crosshair, z3" 2>/dev/null; then
    rm -rf "$V"
    /venv/bin/python -m venv "$V"
    SP=$("$V/bin/python" -c "import sysconfig; print(sysconfig.get_paths()['purelib'])")
    printf '/venv/lib/python3.12/site-packages\n/repo\n' > "$SP/_overlay.pth"
    PIP_NO_INDEX=1 "$V/bin/pip" install -q --no-index --find-links /opt/veriftools/wheels crosshair-tool z3-solver
fi
"$V/bin/python" -c "import crosshair, z3, skepticoin; print('setup ok: crosshair', crosshair.__version__, 'z3', z3.get_version_string())"
